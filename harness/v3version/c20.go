package version

import vrt "github.com/goark/go-cvss/internal/zzvrt"

// C20: the legacy version package, every string, every integer, every map order.
func VH_C20_LegacyVersion() {
	vrt.SymbolicMapOrder(true)
	x := vrt.String("x")
	g := Get(x)
	vrt.Assert((x == "3.0" && g == V3_0) || (x == "3.1" && g == V3_1) || (x != "3.0" && x != "3.1" && g == Unknown), "version label table")
	n := Num(vrt.Int("n"))
	want := "unknown"
	if n == V3_0 {
		want = "3.0"
	} else if n == V3_1 {
		want = "3.1"
	}
	vrt.Assert(n.String() == want, "version printer: 3.0, 3.1, unknown for every other integer")
	if n == V3_0 || n == V3_1 {
		vrt.Assert(Get(n.String()) == n, "parser and printer are inverse on {3.0, 3.1}")
	}
}
