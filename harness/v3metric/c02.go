package metric

import vrt "github.com/goark/go-cvss/internal/zzvrt"

func pickTemporal() (suffix string, e, rl, rc string) {
	e = vrt.Pick("E", "X", "H", "F", "P", "U")
	rl = vrt.Pick("RL", "X", "U", "W", "T", "O")
	rc = vrt.Pick("RC", "X", "C", "R", "U")
	suffix = "/E:" + e + "/RL:" + rl + "/RC:" + rc
	return
}

// C02: all 518,400 temporal vectors through Temporal.Decode.
func VH_C02_temporal() {
	vec, v31, av, ac, pr, ui, s, c, i, a := pickBaseVector()
	suf, e, rl, rc := pickTemporal()
	tm, err := NewTemporal().Decode(vec + suf)
	vrt.Assert(err == nil && tm != nil, "canonical temporal vector is accepted")
	if err != nil {
		return
	}
	// composition: (a) the base score seen through the temporal object is the FIRST base score,
	// (b) the temporal score is Roundup(thatBaseScore x E x RL x RC) -- stated on the library's own base
	// score so that the solver is not asked to re-derive (a) inside (b).
	base := specBase(v31, av, ac, pr, ui, s, c, i, a)
	libBase := tm.BaseMetrics().Score()
	vrt.Assert(libBase == tenth(base), "base score through the temporal object equals the FIRST base score")
	bi := tenthIndex(libBase)
	vrt.Assert(libBase == tenth(bi), "base score is on the tenth grid")
	vrt.Assert(tm.Score() == tenth(specTemporal(v31, bi, e, rl, rc)), "temporal score equals Roundup(base*E*RL*RC)")
	vrt.Assert(tm.Score() <= tm.BaseMetrics().Score(), "temporal never exceeds base")
	if e == "X" && rl == "X" && rc == "X" {
		vrt.Assert(tm.Score() == tm.BaseMetrics().Score(), "all Not Defined: temporal equals base")
	}
}

// C02: omitted temporal metrics count as Not Defined (every subset, base part symbolic).
func VH_C02_temporal_omitted() {
	vec, v31, av, ac, pr, ui, s, c, i, a := pickBaseVector()
	e := vrt.Pick("E", "", "X", "H", "F", "P", "U")
	rl := vrt.Pick("RL", "", "X", "U", "W", "T", "O")
	rc := vrt.Pick("RC", "", "X", "C", "R", "U")
	if e != "" {
		vec = vec + "/E:" + e
	} else {
		e = "X"
	}
	if rl != "" {
		vec = vec + "/RL:" + rl
	} else {
		rl = "X"
	}
	if rc != "" {
		vec = vec + "/RC:" + rc
	} else {
		rc = "X"
	}
	tm, err := NewTemporal().Decode(vec)
	vrt.Assert(err == nil && tm != nil, "temporal vector with omitted metrics is accepted")
	if err != nil {
		return
	}
	_, _, _, _, _, _, _, _ = av, ac, pr, ui, s, c, i, a
	libBase := tm.BaseMetrics().Score()
	bi := tenthIndex(libBase)
	vrt.Assert(libBase == tenth(bi), "base score is on the tenth grid")
	vrt.Assert(tm.Score() == tenth(specTemporal(v31, bi, e, rl, rc)), "omitted temporal metrics count as Not Defined")
}
