package metric

import vrt "github.com/goark/go-cvss/internal/zzvrt"

// C20 (sample): AttackVector table, any string, any integer, any map order.
func VH_C20_v3_AV() {
	vrt.SymbolicMapOrder(true)
	s := vrt.String("s")
	got := GetAttackVector(s)
	want := AttackVectorUnknown
	switch s {
	case "N":
		want = AttackVectorNetwork
	case "A":
		want = AttackVectorAdjacent
	case "L":
		want = AttackVectorLocal
	case "P":
		want = AttackVectorPhysical
	}
	vrt.Assert(got == want, "GetAttackVector(s) is the table value")
	v := AttackVector(vrt.Int("v"))
	code := ""
	switch v {
	case AttackVectorNetwork:
		code = "N"
	case AttackVectorAdjacent:
		code = "A"
	case AttackVectorLocal:
		code = "L"
	case AttackVectorPhysical:
		code = "P"
	}
	vrt.Assert(v.String() == code, "String(v) is the code or empty")
	vrt.Assert(v.IsUnknown() == (code == ""), "IsUnknown separates")
}
