package metric

import (
	"strconv"

	vrt "github.com/goark/go-cvss/internal/zzvrt"
)

func pickEnv() (suffix string, cr, ir, ar, mav, mac, mpr, mui, ms, mc, mi, ma string) {
	cr = vrt.Pick("CR", "X", "H", "M", "L")
	ir = vrt.Pick("IR", "X", "H", "M", "L")
	ar = vrt.Pick("AR", "X", "H", "M", "L")
	mav = vrt.Pick("MAV", "X", "N", "A", "L", "P")
	mac = vrt.Pick("MAC", "X", "L", "H")
	mpr = vrt.Pick("MPR", "X", "N", "L", "H")
	mui = vrt.Pick("MUI", "X", "N", "R")
	ms = vrt.Pick("MS", "X", "U", "C")
	mc = vrt.Pick("MC", "X", "H", "L", "N")
	mi = vrt.Pick("MI", "X", "H", "L", "N")
	ma = vrt.Pick("MA", "X", "H", "L", "N")
	suffix = "/CR:" + cr + "/IR:" + ir + "/AR:" + ar + "/MAV:" + mav + "/MAC:" + mac + "/MPR:" + mpr + "/MUI:" + mui + "/MS:" + ms + "/MC:" + mc + "/MI:" + mi + "/MA:" + ma
	return
}

// C03: temporal metrics all Not Defined; everything else symbolic (1.1e10 vectors).
func VH_C03_env_inner() {
	vec, v31, av, ac, pr, ui, s, c, i, a := pickBaseVector()
	esuf, cr, ir, ar, mav, mac, mpr, mui, ms, mc, mi, ma := pickEnv()
	em, err := NewEnvironmental().Decode(vec + "/E:X/RL:X/RC:X" + esuf)
	vrt.Assert(err == nil && em != nil, "canonical environmental vector is accepted")
	if err != nil {
		return
	}
	want := specEnv(v31, av, ac, pr, ui, s, c, i, a, "X", "X", "X", cr, ir, ar, mav, mac, mpr, mui, ms, mc, mi, ma)
	vrt.Assert(em.Score() == tenth(want), "environmental score (temporal metrics Not Defined) equals the FIRST equations")
}

// C03: the complete version x base x temporal x environmental product (1.1e12 vectors); the registry
// splits it into cubes (100 temporal triples; in the thorough tier also 12 (version, S, MS) cubes).
func VH_C03_env() {
	vec, v31, av, ac, pr, ui, s, c, i, a := pickBaseVector()
	tsuf, e, rl, rc := pickTemporal()
	esuf, cr, ir, ar, mav, mac, mpr, mui, ms, mc, mi, ma := pickEnv()
	em, err := NewEnvironmental().Decode(vec + tsuf + esuf)
	vrt.Assert(err == nil && em != nil, "canonical environmental vector is accepted")
	if err != nil {
		return
	}
	want := specEnv(v31, av, ac, pr, ui, s, c, i, a, e, rl, rc, cr, ir, ar, mav, mac, mpr, mui, ms, mc, mi, ma)
	vrt.Assert(em.Score() == tenth(want), "environmental score equals the FIRST equations")
	// C06 at the environmental level: grid, range and band (the score is k/10 by the line above)
	vrt.Assert(want >= 0 && want <= 100, "environmental score is between 0.0 and 10.0")
	vrt.Assert(em.Severity() == specSeverity(want), "environmental severity is the rating band of the environmental score")
	vrt.Assert(strconv.FormatFloat(em.Score(), 'f', -1, 64) == specFmt(want), "environmental score prints with at most one decimal digit")
}
