package metric

import (
	"errors"

	"github.com/goark/go-cvss/cvsserr"
	vrt "github.com/goark/go-cvss/internal/zzvrt"
)

// C20: version label parser / printer, every string, every integer, every map order.
func VH_C20_Version() {
	vrt.SymbolicMapOrder(true)
	s := vrt.String("s")
	v, err := GetVersion(s)
	pm := splitColon(s)
	if pm == 2 && s == "CVSS:3.0" {
		vrt.Assert(err == nil && v == V3_0, "CVSS:3.0 parses to 3.0")
	} else if pm == 2 && s == "CVSS:3.1" {
		vrt.Assert(err == nil && v == V3_1, "CVSS:3.1 parses to 3.1")
	} else {
		vrt.Assert(v == VUnknown, "every other prefix parses to unknown")
	}
	vrt.Assert(err == nil || (errors.Is(err, cvsserr.ErrInvalidVector) && v == VUnknown), "a malformed prefix is an invalid vector")
	x := vrt.String("x")
	g := get(x)
	vrt.Assert((x == "3.0" && g == V3_0) || (x == "3.1" && g == V3_1) || (x != "3.0" && x != "3.1" && g == VUnknown), "version label table")
	n := Version(vrt.Int("n"))
	want := "unknown"
	if n == V3_0 {
		want = "3.0"
	} else if n == V3_1 {
		want = "3.1"
	}
	vrt.Assert(n.String() == want, "version printer: 3.0, 3.1, unknown for every other integer")
	if n == V3_0 || n == V3_1 {
		vrt.Assert(get(n.String()) == n, "parser and printer are inverse on {3.0, 3.1}")
	}
}

func splitColon(s string) int {
	ok, _, _ := specShape(s)
	if ok {
		return 2
	}
	return 0
}
