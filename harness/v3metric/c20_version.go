package metric

import (
	"errors"

	"github.com/goark/go-cvss/cvsserr"
	vrt "github.com/goark/go-cvss/internal/zzvrt"
)

// C20: version label parser / printer, every string, every integer, every map order.
func VH_C20_Version() {
	vrt.SymbolicMapOrder(true)
	s := vrt.String("s")
	v, err := GetVersion(s)
	pm := splitColon(s)
	if pm == 2 && s == "CVSS:3.0" {
		vrt.Assert(err == nil && v == V3_0, "CVSS:3.0 parses to 3.0")
	} else if pm == 2 && s == "CVSS:3.1" {
		vrt.Assert(err == nil && v == V3_1, "CVSS:3.1 parses to 3.1")
	} else {
		vrt.Assert(v == VUnknown, "every other prefix parses to unknown")
	}
	vrt.Assert(err == nil || (errors.Is(err, cvsserr.ErrInvalidVector) && v == VUnknown), "a malformed prefix is an invalid vector")
	x := vrt.String("x")
	g := get(x)
	vrt.Assert((x == "3.0" && g == V3_0) || (x == "3.1" && g == V3_1) || (x != "3.0" && x != "3.1" && g == VUnknown), "version label table")
	n := Version(vrt.Int("n"))
	want := "unknown"
	if n == V3_0 {
		want = "3.0"
	} else if n == V3_1 {
		want = "3.1"
	}
	vrt.Assert(n.String() == want, "version printer: 3.0, 3.1, unknown for every other integer")
	if n == V3_0 || n == V3_1 {
		vrt.Assert(get(n.String()) == n, "parser and printer are inverse on {3.0, 3.1}")
	}
}

func splitColon(s string) int {
	ok, _, _ := specShape(s)
	if ok {
		return 2
	}
	return 0
}

// C07: a complete canonical base vector (fixed metric values) whose version text is an arbitrary string (no '/' and no ':'):
// all three decoders accept it exactly when the text is "3.0" or "3.1", and the object carries that
// version (added after seeded change S52: numerically equal spellings such as 3.01, 03.1, +3.0).
func VH_C07_v3_version_free() {
	v := vrt.StringNo("vtext", "/:")
	// the metric part is one fixed canonical body: acceptance of a canonical body does not depend on its values (E harnesses)
	vec := "CVSS:" + v + "/AV:N/AC:L/PR:N/UI:N/S:U/C:H/I:H/A:H"
	want := v == "3.0" || v == "3.1"
	bm, e1 := NewBase().Decode(vec)
	tm, e2 := NewTemporal().Decode(vec)
	em, e3 := NewEnvironmental().Decode(vec)
	vrt.Assert((e1 == nil) == want && (e2 == nil) == want && (e3 == nil) == want, "a canonical vector is accepted exactly when its version text is 3.0 or 3.1")
	if e1 == nil && e2 == nil && e3 == nil {
		vrt.Assert(bm.Ver.String() == v && tm.Ver.String() == v && em.Ver.String() == v, "the object carries the written version")
	}
}
