package metric

import vrt "github.com/goark/go-cvss/internal/zzvrt"

// C13 (v3): all eleven environmental metrics Not Defined: environmental score equals temporal score,
// except for scope-changed v3.1 vectors.
func VH_C13_v3_env_neutral() {
	vec, v31, _, _, _, _, s, _, _, _ := pickBaseVector()
	tsuf, _, _, _ := pickTemporal()
	em, err := NewEnvironmental().Decode(vec + tsuf + "/CR:X/IR:X/AR:X/MAV:X/MAC:X/MPR:X/MUI:X/MS:X/MC:X/MI:X/MA:X")
	em2, err2 := NewEnvironmental().Decode(vec + tsuf)
	vrt.Assert(err == nil && err2 == nil, "accepted")
	if err != nil || err2 != nil {
		return
	}
	if !(v31 && s == "C") {
		vrt.Assert(em.Score() == em.TemporalMetrics().Score(), "environmental metrics all Not Defined: environmental score equals temporal score")
		vrt.Assert(em2.Score() == em2.TemporalMetrics().Score(), "environmental metrics omitted: environmental score equals temporal score")
	}
	vrt.Assert(em.Score() == em2.Score(), "writing X is indistinguishable from omitting the metric")
	vrt.Assert(em.TemporalMetrics().Score() <= em.BaseMetrics().Score(), "temporal never exceeds base")
}

// C14 (v3): the three views of one vector agree with independent lower-level decodes.
func VH_C14_v3_views() {
	vec, _, _, _, _, _, _, _, _, _ := pickBaseVector()
	tsuf, _, _, _ := pickTemporal()
	esuf, _, _, _, _, _, _, _, _, _, _, _ := pickEnv()
	em, e1 := NewEnvironmental().Decode(vec + tsuf + esuf)
	tm, e2 := NewTemporal().Decode(vec + tsuf)
	bm, e3 := NewBase().Decode(vec)
	vrt.Assert(e1 == nil && e2 == nil && e3 == nil, "all three decoders accept their part")
	if e1 != nil || e2 != nil || e3 != nil {
		return
	}
	if vrt.Bool("envFirst") {
		// the views must agree whatever was queried first on the environmental object
		_ = em.Score()
		_ = em.Severity()
	}
	vrt.Assert(em.BaseMetrics() == em.Temporal.Base && em.TemporalMetrics() == em.Temporal && tm.BaseMetrics() == tm.Base && bm.BaseMetrics() == bm, "accessors return the embedded objects")
	eb, _ := em.BaseMetrics().Encode()
	tb, _ := tm.BaseMetrics().Encode()
	bb, _ := bm.Encode()
	vrt.Assert(em.BaseMetrics().Score() == bm.Score() && tm.BaseMetrics().Score() == bm.Score(), "base score through temporal / environmental objects equals the base decoder's")
	vrt.Assert(em.BaseMetrics().Severity() == bm.Severity() && tm.BaseMetrics().Severity() == bm.Severity(), "base severity agrees")
	vrt.Assert(eb == bb && tb == bb && bb == vec, "base encoding agrees")
	et, _ := em.TemporalMetrics().Encode()
	tt, _ := tm.Encode()
	vrt.Assert(em.TemporalMetrics().Score() == tm.Score() && em.TemporalMetrics().Severity() == tm.Severity(), "temporal score and severity through the environmental object equal the temporal decoder's")
	vrt.Assert(et == tt && tt == vec+tsuf, "temporal encoding agrees")
}
