package metric

import (
	"strconv"

	vrt "github.com/goark/go-cvss/internal/zzvrt"
)

// specSeverity: qualitative rating band of a score given as a tenth index (v3 specification section 5).
func specSeverity(k int) Severity {
	switch {
	case k == 0:
		return SeverityNone
	case k >= 1 && k <= 39:
		return SeverityLow
	case k >= 40 && k <= 69:
		return SeverityMedium
	case k >= 70 && k <= 89:
		return SeverityHigh
	case k >= 90 && k <= 100:
		return SeverityCritical
	}
	return SeverityUnknown
}

// specFmt: the decimal rendering of k/10 with at most one decimal digit.
func specFmt(k int) string {
	if k%10 == 0 {
		return strconv.Itoa(k / 10)
	}
	return strconv.Itoa(k/10) + "." + strconv.Itoa(k%10)
}

// gridAndBand: the score is k/10 with 0 <= k <= 100, prints with at most one decimal, and sev is the band of k.
func gridAndBand(score float64, sev Severity, what string) {
	k := tenthIndex(score)
	vrt.Assert(score == tenth(k) && k >= 0 && k <= 100, "score is a multiple of 0.1 between 0.0 and 10.0")
	vrt.Assert(strconv.FormatFloat(score, 'f', -1, 64) == specFmt(k), "score prints with at most one decimal digit")
	vrt.Assert(sev == specSeverity(k), "severity is the rating band of the score of the same level")
	_ = what
}

// C06, v3 base and temporal levels (complete domains).
func VH_C06_v3_base_temporal() {
	vec, _, _, _, _, _, _, _, _, _ := pickBaseVector()
	suf, _, _, _ := pickTemporal()
	tm, err := NewTemporal().Decode(vec + suf)
	vrt.Assert(err == nil, "canonical temporal vector is accepted")
	if err != nil {
		return
	}
	gridAndBand(tm.Score(), tm.Severity(), "temporal")
	gridAndBand(tm.BaseMetrics().Score(), tm.BaseMetrics().Severity(), "base")
}

// C06 kernel: severity() on every float64 in [0, 10] (and below 0): comparison-only, true "for all doubles".
func VH_C06_v3_severity_kernel() {
	x := vrt.Float("x")
	s := severity(x)
	vrt.Assert(!(x == 0) || s == SeverityNone, "0.0 is None")
	vrt.Assert(!(x > 0 && x < 4.0) || s == SeverityLow, "(0, 4.0) is Low")
	vrt.Assert(!(x >= 4.0 && x < 7.0) || s == SeverityMedium, "[4.0, 7.0) is Medium")
	vrt.Assert(!(x >= 7.0 && x < 9.0) || s == SeverityHigh, "[7.0, 9.0) is High")
	vrt.Assert(!(x >= 9.0 && x <= 10.0) || s == SeverityCritical, "[9.0, 10.0] is Critical")
	// the grid points next to the band edges, as exact doubles
	vrt.Assert(severity(3.9) == SeverityLow && severity(4.0) == SeverityMedium && severity(6.9) == SeverityMedium && severity(7.0) == SeverityHigh && severity(8.9) == SeverityHigh && severity(9.0) == SeverityCritical && severity(0.1) == SeverityLow && severity(10.0) == SeverityCritical, "band edges")
}

// C06 kernel (thorough): roundUp on every float64 in [0, 10]: the result is float64(k)/10 for the integer k
// that Appendix A of the v3.1 specification prescribes, 0 <= k <= 100, and lies in [x - 1e-5, x + 0.100001).
func VH_C06_v3_roundup_kernel() {
	x := vrt.Float("x")
	vrt.Assume(x >= 0 && x <= 10)
	r := roundUp(x)
	i := int(mathRound(x * 100000))
	k := i / 10000
	if i%10000 != 0 {
		k = k + 1
	}
	vrt.Assert(k >= 0 && k <= 100, "tenth index within 0..100")
	vrt.Assert(r == float64(k)/10, "roundUp(x) is exactly the double nearest to k/10")
	vrt.Assert(r >= x-0.00001 && r < x+0.100001, "roundUp(x) is the next tenth at or above x (up to the 1e-5 tolerance of Appendix A)")
}

// C06, v3 environmental level (complete 1.1e12 domain, relative to the library's own score): the score is
// on the tenth grid within 0.0 .. 10.0, prints with at most one decimal, and the severity is its band.
func VH_C06_v3_env() {
	vec, _, _, _, _, _, _, _, _, _ := pickBaseVector()
	tsuf, _, _, _ := pickTemporal()
	esuf, _, _, _, _, _, _, _, _, _, _, _ := pickEnv()
	em, err := NewEnvironmental().Decode(vec + tsuf + esuf)
	vrt.Assert(err == nil, "canonical environmental vector is accepted")
	if err != nil {
		return
	}
	gridAndBand(em.Score(), em.Severity(), "environmental")
}
