package metric

import vrt "github.com/goark/go-cvss/internal/zzvrt"

func pickBaseVector() (vec string, v31 bool, av, ac, pr, ui, s, c, i, a string) {
	ver := vrt.Pick("ver", "3.0", "3.1")
	av = vrt.Pick("AV", "N", "A", "L", "P")
	ac = vrt.Pick("AC", "L", "H")
	pr = vrt.Pick("PR", "N", "L", "H")
	ui = vrt.Pick("UI", "N", "R")
	s = vrt.Pick("S", "U", "C")
	c = vrt.Pick("C", "H", "L", "N")
	i = vrt.Pick("I", "H", "L", "N")
	a = vrt.Pick("A", "H", "L", "N")
	vec = "CVSS:" + ver + "/AV:" + av + "/AC:" + ac + "/PR:" + pr + "/UI:" + ui + "/S:" + s + "/C:" + c + "/I:" + i + "/A:" + a
	v31 = ver == "3.1"
	return
}

// C01: every canonical v3 base vector, through the public decoder.
func VH_C01_base() {
	vec, v31, av, ac, pr, ui, s, c, i, a := pickBaseVector()
	bm, err := NewBase().Decode(vec)
	vrt.Assert(err == nil && bm != nil, "canonical base vector is accepted")
	if err != nil {
		return
	}
	got := bm.Score()
	want := specBase(v31, av, ac, pr, ui, s, c, i, a)
	vrt.Assert(got == tenth(want), "base score equals the FIRST equations")
	vrt.Assert((got == 0) == (c == "N" && i == "N" && a == "N"), "base score is 0 exactly when C, I, A are all None")
}
