package metric

import vrt "github.com/goark/go-cvss/internal/zzvrt"

func queryAll(em *Environmental) {
	_ = em.Score()
	_ = em.Severity()
	_ = em.GetError()
	_, _ = em.Encode()
	_ = em.String()
	_ = em.BaseMetrics()
	_ = em.TemporalMetrics()
	tm := em.Temporal
	_ = tm.Score()
	_ = tm.Severity()
	_ = tm.GetError()
	_, _ = tm.Encode()
	_ = tm.String()
	_ = tm.BaseMetrics()
	bm := em.Base
	_ = bm.Score()
	_ = bm.Severity()
	_ = bm.GetError()
	_, _ = bm.Encode()
	_ = bm.String()
	_ = bm.BaseMetrics()
}

// C15/C16 (v3): every query on every decoded environmental object leaves every heap cell that existed
// before (the object, its embedded objects, all names maps, all package-level tables) unchanged.
func VH_C15_v3_queries_frame() {
	vec, _, _, _, _, _, _, _, _, _ := pickBaseVector()
	tsuf, _, _, _ := pickTemporal()
	esuf, _, _, _, _, _, _, _, _, _, _, _ := pickEnv()
	em, err := NewEnvironmental().Decode(vec + tsuf + esuf)
	vrt.Assert(err == nil, "accepted")
	if err != nil {
		return
	}
	s1 := em.Score()
	e1, _ := em.Encode()
	vrt.FrameWatch(em)
	vrt.FrameBegin()
	queryAll(em)
	vrt.FrameUnchanged("queries on a decoded object write nothing (object, names maps, package-level tables)")
	s2 := em.Score()
	e2, _ := em.Encode()
	vrt.Assert(s1 == s2 && e1 == e2, "repeating a query after other queries returns the identical result")
}

// the same on an arbitrary state (covers objects left behind by failed decodes) and on nil / fresh objects
func VH_C15_v3_queries_frame_arbitrary() {
	x := NewEnvironmental()
	x.Ver = Version(vrt.Int("Ver"))
	x.AV = AttackVector(vrt.Int("AV"))
	x.AC = AttackComplexity(vrt.Int("AC"))
	x.PR = PrivilegesRequired(vrt.Int("PR"))
	x.UI = UserInteraction(vrt.Int("UI"))
	x.S = Scope(vrt.Int("S"))
	x.C = ConfidentialityImpact(vrt.Int("C"))
	x.I = IntegrityImpact(vrt.Int("I"))
	x.A = AvailabilityImpact(vrt.Int("A"))
	x.E = Exploitability(vrt.Int("E"))
	x.RL = RemediationLevel(vrt.Int("RL"))
	x.RC = ReportConfidence(vrt.Int("RC"))
	x.CR = ConfidentialityRequirement(vrt.Int("CR"))
	x.MS = ModifiedScope(vrt.Int("MS"))
	x.MPR = ModifiedPrivilegesRequired(vrt.Int("MPR"))
	x.MA = ModifiedAvailabilityImpact(vrt.Int("MA"))
	if vrt.Bool("nAV") {
		x.Base.names["AV"] = true
	}
	if vrt.Bool("nE") {
		x.Temporal.names["E"] = true
	}
	if vrt.Bool("nMS") {
		x.names["MS"] = true
	}
	var nilEnv *Environmental
	vrt.FrameWatch(x)
	vrt.FrameBegin()
	_ = x.GetError()
	_, _ = x.Encode()
	_ = x.String()
	_ = x.Temporal.String()
	_ = x.Base.String()
	_ = x.BaseMetrics()
	_ = x.TemporalMetrics()
	_ = nilEnv.GetError()
	_ = nilEnv.Score()
	_ = nilEnv.String()
	queryAll(NewEnvironmental())
	vrt.FrameUnchanged("queries on arbitrary, nil and fresh objects write nothing")
}

// history-freedom: a decode (successful or failed, arbitrary strings) writes only to the objects it
// allocates itself; in particular no package-level table is touched.
func VH_C15_v3_decode_frame() {
	pre := vrt.StringNo("prefix", "/")
	t1 := vrt.StringNo("t1", "/")
	t2 := vrt.StringNo("t2", "/")
	other := NewEnvironmental()
	vrt.FrameWatch(other)
	vrt.FrameBegin()
	_, _ = NewEnvironmental().Decode(pre + "/" + t1 + "/" + t2)
	_, _ = NewTemporal().Decode(pre + "/" + t1)
	_, _ = NewBase().Decode(pre)
	vrt.FrameUnchanged("Decode writes only to objects it allocates: package-level tables and other objects are untouched")
	_ = other
}

func VH_C15_v3_decode_frame_valid() {
	vec, _, _, _, _, _, _, _, _, _ := pickBaseVector()
	tsuf, _, _, _ := pickTemporal()
	esuf, _, _, _, _, _, _, _, _, _, _, _ := pickEnv()
	other, _ := NewEnvironmental().Decode(vec + tsuf + esuf)
	vrt.FrameWatch(other)
	vrt.FrameBegin()
	em, err := NewEnvironmental().Decode(vec + tsuf + esuf)
	vrt.FrameUnchanged("decoding a valid vector writes only to the new object")
	vrt.Assert(err == nil && other != nil && em != other && em.Temporal != other.Temporal && em.Base != other.Base, "each decode returns fresh objects")
}

// constructor freshness: objects share nothing; a step on one leaves the other as constructed.
func VH_C15_v3_fresh() {
	a := NewEnvironmental()
	b := NewEnvironmental()
	tok := vrt.String("tok")
	vrt.Assert(a != b && a.Temporal != b.Temporal && a.Base != b.Base, "constructors return distinct objects")
	vrt.FrameWatch(b)
	vrt.FrameBegin()
	vrt.FrameExempt(a)
	_ = a.decodeOne(tok)
	vrt.FrameUnchanged("a decode step on one object changes neither another object nor any package-level table")
	vrt.Assert(!b.names[tok] && !b.Temporal.names[tok] && !b.Base.names[tok], "the other object's names maps are still empty")
}

// history-freedom, observationally: decoding, scoring, encoding and failed decodes of an arbitrary
// FIRST vector do not change what the process then returns for an arbitrary SECOND vector. The engine
// runs this harness twice (HistoryStep false / true) on the same symbolic inputs.
func VH_C15_v3_history() {
	vec1, _, _, _, _, _, _, _, _, _ := pickBaseVector()
	esuf1, _, _, _, _, _, _, _, _, _, _, _ := pickEnv()
	vec2, _, _, _, _, _, _, _, _, _ := pickBaseVector()
	tsuf2, _, _, _ := pickTemporal()
	esuf2, _, _, _, _, _, _, _, _, _, _, _ := pickEnv()
	junk := vrt.StringNo("junk", "/")
	if vrt.HistoryStep() {
		em1, err1 := NewEnvironmental().Decode(vec1 + esuf1)
		if err1 == nil {
			_ = em1.Score()
			_ = em1.Severity()
			_, _ = em1.Encode()
			_ = em1.TemporalMetrics().Score()
			_ = em1.BaseMetrics().Score()
		}
		_, _ = NewEnvironmental().Decode(junk)
		_, _ = NewBase().Decode(vec1 + "/" + junk)
	}
	em2, err := NewEnvironmental().Decode(vec2 + tsuf2 + esuf2)
	vrt.Observe("accepted", err == nil)
	if err != nil {
		return
	}
	enc, _ := em2.Encode()
	vrt.Observe("score", em2.Score())
	vrt.Observe("severity", int(em2.Severity()))
	vrt.Observe("encoding", enc)
	vrt.Observe("temporal score", em2.TemporalMetrics().Score())
	vrt.Observe("base score", em2.BaseMetrics().Score())
}

// C09/C14/C15: a decoder object that is used for a second Decode. Whatever the first vector was, IF the
// second Decode on the same object accepts, the object it returns reads (at all three levels) like a
// fresh decode of the second vector. (On a tree whose decoders reject every reuse the assertions are
// unreachable, which is fine: they are conditional on acceptance.)
func VH_C15_v3_reuse() {
	vec1, _, _, _, _, _, _, _, _, _ := pickBaseVector()
	tsuf1, _, _, _ := pickTemporal()
	esuf1, _, _, _, _, _, _, _, _, _, _, _ := pickEnv()
	vec2, _, _, _, _, _, _, _, _, _ := pickBaseVector()
	tsuf2, _, _, _ := pickTemporal()
	esuf2, _, _, _, _, _, _, _, _, _, _, _ := pickEnv()
	junk := vrt.StringNo("junk", "/")
	// the second vector may omit its temporal and / or environmental metrics
	second2 := vec2
	if vrt.Pick("tgroup2", "absent", "present") == "present" {
		second2 = second2 + tsuf2
	}
	second3 := second2
	if vrt.Pick("egroup2", "absent", "present") == "present" {
		second3 = second3 + esuf2
	}
	first := vec1 + tsuf1 + esuf1
	if vrt.Bool("firstFails") {
		first = vec1 + "/" + junk
	}
	lvl := vrt.Pick("level", "base", "temporal", "environmental")
	switch lvl {
	case "base":
		d := NewBase()
		_, _ = d.Decode(vec1)
		got, err := d.Decode(vec2)
		if err == nil {
			fresh, ferr := NewBase().Decode(vec2)
			ge, _ := got.Encode()
			fe, _ := fresh.Encode()
			vrt.Assert(ferr == nil && ge == fe && got.Ver == fresh.Ver, "IF: a base decoder that accepts a second vector returns what a fresh decoder returns")
		}
	case "temporal":
		d := NewTemporal()
		_, _ = d.Decode(vec1 + tsuf1)
		got, err := d.Decode(second2)
		if err == nil {
			fresh, ferr := NewTemporal().Decode(second2)
			ge, _ := got.Encode()
			fe, _ := fresh.Encode()
			gb, _ := got.BaseMetrics().Encode()
			fb, _ := fresh.BaseMetrics().Encode()
			vrt.Assert(ferr == nil && ge == fe && gb == fb, "IF: a temporal decoder that accepts a second vector returns what a fresh decoder returns")
		}
	default:
		d := NewEnvironmental()
		_, _ = d.Decode(first)
		got, err := d.Decode(second3)
		if err == nil {
			fresh, ferr := NewEnvironmental().Decode(second3)
			ge, _ := got.Encode()
			fe, _ := fresh.Encode()
			gt, _ := got.TemporalMetrics().Encode()
			ft, _ := fresh.TemporalMetrics().Encode()
			gb, _ := got.BaseMetrics().Encode()
			fb, _ := fresh.BaseMetrics().Encode()
			vrt.Assert(ferr == nil && ge == fe && gt == ft && gb == fb, "IF: an environmental decoder that accepts a second vector returns what a fresh decoder returns (all three views)")
		}
	}
	vrt.Reach("reuse harness runs to its end")
}
