package metric

import "math"

func mathRound(x float64) float64 { return math.Round(x) }
