package metric

import vrt "github.com/goark/go-cvss/internal/zzvrt"

// Reference model of the CVSS v3.0 / v3.1 equations in exact arithmetic.
// Weights are transcribed from the FIRST specification documents
// (v3.0 / v3.1 specification, section 7.4 "Metric Values"), keyed by the
// vector-string codes, not by the library's constants.

type R = vrt.Rat

func specAV(c string) R {
	switch c {
	case "N":
		return vrt.R("0.85")
	case "A":
		return vrt.R("0.62")
	case "L":
		return vrt.R("0.55")
	case "P":
		return vrt.R("0.2")
	}
	return vrt.R("0")
}

func specAC(c string) R {
	switch c {
	case "L":
		return vrt.R("0.77")
	case "H":
		return vrt.R("0.44")
	}
	return vrt.R("0")
}

func specPR(c string, changed bool) R {
	switch c {
	case "N":
		return vrt.R("0.85")
	case "L":
		if changed {
			return vrt.R("0.68")
		}
		return vrt.R("0.62")
	case "H":
		if changed {
			return vrt.R("0.5")
		}
		return vrt.R("0.27")
	}
	return vrt.R("0")
}

func specUI(c string) R {
	switch c {
	case "N":
		return vrt.R("0.85")
	case "R":
		return vrt.R("0.62")
	}
	return vrt.R("0")
}

func specCIA(c string) R {
	switch c {
	case "H":
		return vrt.R("0.56")
	case "L":
		return vrt.R("0.22")
	case "N":
		return vrt.R("0")
	}
	return vrt.R("0")
}

func specE(c string) R {
	switch c {
	case "X", "H":
		return vrt.R("1")
	case "F":
		return vrt.R("0.97")
	case "P":
		return vrt.R("0.94")
	case "U":
		return vrt.R("0.91")
	}
	return vrt.R("0")
}

func specRL(c string) R {
	switch c {
	case "X", "U":
		return vrt.R("1")
	case "W":
		return vrt.R("0.97")
	case "T":
		return vrt.R("0.96")
	case "O":
		return vrt.R("0.95")
	}
	return vrt.R("0")
}

func specRC(c string) R {
	switch c {
	case "X", "C":
		return vrt.R("1")
	case "R":
		return vrt.R("0.96")
	case "U":
		return vrt.R("0.92")
	}
	return vrt.R("0")
}

func specReq(c string) R {
	switch c {
	case "X", "M":
		return vrt.R("1")
	case "H":
		return vrt.R("1.5")
	case "L":
		return vrt.R("0.5")
	}
	return vrt.R("0")
}

// specRoundup returns the tenth index k such that Roundup(x) = k/10.
// v3.0: smallest number with one decimal that is >= x.
// v3.1 (Appendix A): i = round(x*100000); i%10000==0 ? i/100000 : (floor(i/10000)+1)/10.
func specRoundup(x R, v31 bool) int {
	if !v31 {
		return vrt.RCeil(vrt.RMul(x, vrt.RInt(10)))
	}
	i := vrt.RRound(vrt.RMul(x, vrt.RInt(100000)))
	if i%10000 == 0 {
		return i / 10000
	}
	return i/10000 + 1 // i >= 0 in every use
}

// specBase returns the base score as a tenth index.
func specBase(v31 bool, av, ac, pr, ui, s, c, i, a string) int {
	changed := s == "C"
	one := vrt.RInt(1)
	iss := vrt.RSub(one, vrt.RMul(vrt.RMul(vrt.RSub(one, specCIA(c)), vrt.RSub(one, specCIA(i))), vrt.RSub(one, specCIA(a))))
	var impact R
	if changed {
		impact = vrt.RSub(vrt.RMul(vrt.R("7.52"), vrt.RSub(iss, vrt.R("0.029"))), vrt.RMul(vrt.R("3.25"), vrt.RPow(vrt.RSub(iss, vrt.R("0.02")), 15)))
	} else {
		impact = vrt.RMul(vrt.R("6.42"), iss)
	}
	expl := vrt.RMul(vrt.RMul(vrt.RMul(vrt.RMul(vrt.R("8.22"), specAV(av)), specAC(ac)), specPR(pr, changed)), specUI(ui))
	if vrt.RLe(impact, vrt.RInt(0)) {
		return 0
	}
	if changed {
		return specRoundup(vrt.RMin(vrt.RMul(vrt.R("1.08"), vrt.RAdd(impact, expl)), vrt.RInt(10)), v31)
	}
	return specRoundup(vrt.RMin(vrt.RAdd(impact, expl), vrt.RInt(10)), v31)
}

func tenth(k int) float64 { return float64(k) / 10 }

// specTemporal: Roundup(base * E * RL * RC) on the rounded base score (tenth index in, tenth index out).
func specTemporal(v31 bool, baseTenth int, e, rl, rc string) int {
	b := vrt.RDivInt(vrt.RInt(baseTenth), 10)
	return specRoundup(vrt.RMul(vrt.RMul(vrt.RMul(b, specE(e)), specRL(rl)), specRC(rc)), v31)
}

// eff returns the effective code of a Modified metric: its own value, or the base value when X.
func eff(m, base string) string {
	if m == "X" {
		return base
	}
	return m
}

// specEnv returns the environmental score as a tenth index.
func specEnv(v31 bool, av, ac, pr, ui, s, c, i, a, e, rl, rc, cr, ir, ar, mav, mac, mpr, mui, ms, mc, mi, ma string) int {
	one := vrt.RInt(1)
	changed := eff(ms, s) == "C"
	miss := vrt.RMin(vrt.RSub(one,
		vrt.RMul(vrt.RMul(
			vrt.RSub(one, vrt.RMul(specReq(cr), specCIA(eff(mc, c)))),
			vrt.RSub(one, vrt.RMul(specReq(ir), specCIA(eff(mi, i))))),
			vrt.RSub(one, vrt.RMul(specReq(ar), specCIA(eff(ma, a)))))),
		vrt.R("0.915"))
	var impact R
	if changed {
		if v31 {
			impact = vrt.RSub(vrt.RMul(vrt.R("7.52"), vrt.RSub(miss, vrt.R("0.029"))),
				vrt.RMul(vrt.R("3.25"), vrt.RPow(vrt.RSub(vrt.RMul(miss, vrt.R("0.9731")), vrt.R("0.02")), 13)))
		} else {
			impact = vrt.RSub(vrt.RMul(vrt.R("7.52"), vrt.RSub(miss, vrt.R("0.029"))),
				vrt.RMul(vrt.R("3.25"), vrt.RPow(vrt.RSub(miss, vrt.R("0.02")), 15)))
		}
	} else {
		impact = vrt.RMul(vrt.R("6.42"), miss)
	}
	expl := vrt.RMul(vrt.RMul(vrt.RMul(vrt.RMul(vrt.R("8.22"), specAV(eff(mav, av))), specAC(eff(mac, ac))), specPR(eff(mpr, pr), changed)), specUI(eff(mui, ui)))
	if vrt.RLe(impact, vrt.RInt(0)) {
		return 0
	}
	var inner int
	if changed {
		inner = specRoundup(vrt.RMin(vrt.RMul(vrt.R("1.08"), vrt.RAdd(impact, expl)), vrt.RInt(10)), v31)
	} else {
		inner = specRoundup(vrt.RMin(vrt.RAdd(impact, expl), vrt.RInt(10)), v31)
	}
	return specTemporal(v31, inner, e, rl, rc)
}

// tenthIndex recovers k from a score that lies on the tenth grid (exactly: nearest integer to 10*x).
func tenthIndex(x float64) int { return vrt.RRound(vrt.RMul(vrt.RFromFloat(x), vrt.RInt(10))) }
