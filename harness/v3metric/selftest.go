package metric

import vrt "github.com/goark/go-cvss/internal/zzvrt"

// Translator validation harness (symgo selftest): one concrete vector through the three v3 decoders.
func VH_ST_v3() {
	vec := vrt.String("vec")
	bm, e1 := NewBase().Decode(vec)
	vrt.Observe("base.err", errClass(e1))
	if e1 == nil {
		s, _ := bm.Encode()
		vrt.Observe("base.enc", s)
		vrt.Observe("base.score", bm.Score())
		vrt.Observe("base.sev", int(bm.Severity()))
		vrt.Observe("base.fields", int(bm.Ver)*100000000+int(bm.AV)*10000000+int(bm.AC)*1000000+int(bm.PR)*100000+int(bm.UI)*10000+int(bm.S)*1000+int(bm.C)*100+int(bm.I)*10+int(bm.A))
	}
	tm, e2 := NewTemporal().Decode(vec)
	vrt.Observe("temporal.err", errClass(e2))
	if e2 == nil {
		s, _ := tm.Encode()
		vrt.Observe("temporal.enc", s)
		vrt.Observe("temporal.score", tm.Score())
		vrt.Observe("temporal.sev", int(tm.Severity()))
		vrt.Observe("temporal.fields", int(tm.E)*100+int(tm.RL)*10+int(tm.RC))
	}
	em, e3 := NewEnvironmental().Decode(vec)
	vrt.Observe("env.err", errClass(e3))
	if e3 == nil {
		s, _ := em.Encode()
		vrt.Observe("env.enc", s)
		vrt.Observe("env.score", em.Score())
		vrt.Observe("env.sev", int(em.Severity()))
		vrt.Observe("env.tscore", em.TemporalMetrics().Score())
		vrt.Observe("env.bscore", em.BaseMetrics().Score())
		vrt.Observe("env.fields", int(em.CR)*10000000000+int(em.IR)*1000000000+int(em.AR)*100000000+int(em.MAV)*10000000+int(em.MAC)*1000000+int(em.MPR)*100000+int(em.MUI)*10000+int(em.MS)*1000+int(em.MC)*100+int(em.MI)*10+int(em.MA))
	}
}
