package metric

import vrt "github.com/goark/go-cvss/internal/zzvrt"

// C12 observer matrix, v3. Every harness implicitly asserts that nothing panics.

func observeBase(b *Base) (bool, bool, float64) {
	e1 := b.GetError()
	_, e2 := b.Encode()
	_ = b.String()
	_ = b.Severity()
	_ = b.BaseMetrics()
	return e1 != nil, e2 != nil, b.Score()
}

func observeTemporal(t *Temporal) (bool, bool, float64) {
	e1 := t.GetError()
	_, e2 := t.Encode()
	_ = t.String()
	_ = t.Severity()
	_ = t.BaseMetrics()
	return e1 != nil, e2 != nil, t.Score()
}

func observeEnv(e *Environmental) (bool, bool, float64) {
	e1 := e.GetError()
	_, e2 := e.Encode()
	_ = e.String()
	_ = e.Severity()
	_ = e.BaseMetrics()
	_ = e.TemporalMetrics()
	return e1 != nil, e2 != nil, e.Score()
}

// nil receivers and fresh constructor results: validity and encoding report an error, the score is 0.
func VH_C12_v3_nil_fresh() {
	var nb *Base
	var nt *Temporal
	var ne *Environmental
	a, b, s := observeBase(nb)
	vrt.Assert(a && b && s == 0, "nil *Base: GetError and Encode fail, Score is 0")
	a, b, s = observeTemporal(nt)
	vrt.Assert(a && b && s == 0, "nil *Temporal: GetError and Encode fail, Score is 0")
	a, b, s = observeEnv(ne)
	vrt.Assert(a && b && s == 0, "nil *Environmental: GetError and Encode fail, Score is 0")
	vrt.Assert(nt.BaseMetrics() == nil && ne.BaseMetrics() == nil && ne.TemporalMetrics() == nil, "accessors of nil receivers return nil")
	a, b, s = observeBase(NewBase())
	vrt.Assert(a && b && s == 0, "fresh Base: GetError and Encode fail, Score is 0")
	a, b, s = observeTemporal(NewTemporal())
	vrt.Assert(a && b && s == 0, "fresh Temporal: GetError and Encode fail, Score is 0")
	a, b, s = observeEnv(NewEnvironmental())
	vrt.Assert(a && b && s == 0, "fresh Environmental: GetError and Encode fail, Score is 0")
}

// any state satisfying the representation invariant with arbitrary 64-bit field values (a superset of what a
// failed Decode leaves behind, by the step lemmas): no observer panics.
func VH_C12_v3_arbitrary_state() {
	x := NewEnvironmental()
	x.Ver = Version(vrt.Int("Ver"))
	x.AV = AttackVector(vrt.Int("AV"))
	x.AC = AttackComplexity(vrt.Int("AC"))
	x.PR = PrivilegesRequired(vrt.Int("PR"))
	x.UI = UserInteraction(vrt.Int("UI"))
	x.S = Scope(vrt.Int("S"))
	x.C = ConfidentialityImpact(vrt.Int("C"))
	x.I = IntegrityImpact(vrt.Int("I"))
	x.A = AvailabilityImpact(vrt.Int("A"))
	x.E = Exploitability(vrt.Int("E"))
	x.RL = RemediationLevel(vrt.Int("RL"))
	x.RC = ReportConfidence(vrt.Int("RC"))
	x.CR = ConfidentialityRequirement(vrt.Int("CR"))
	x.IR = IntegrityRequirement(vrt.Int("IR"))
	x.AR = AvailabilityRequirement(vrt.Int("AR"))
	x.MAV = ModifiedAttackVector(vrt.Int("MAV"))
	x.MAC = ModifiedAttackComplexity(vrt.Int("MAC"))
	x.MPR = ModifiedPrivilegesRequired(vrt.Int("MPR"))
	x.MUI = ModifiedUserInteraction(vrt.Int("MUI"))
	x.MS = ModifiedScope(vrt.Int("MS"))
	x.MC = ModifiedConfidentialityImpact(vrt.Int("MC"))
	x.MI = ModifiedIntegrityImpact(vrt.Int("MI"))
	x.MA = ModifiedAvailabilityImpact(vrt.Int("MA"))
	if vrt.Bool("nAV") {
		x.Base.names["AV"] = true
	}
	if vrt.Bool("nS") {
		x.Base.names["S"] = true
	}
	if vrt.Bool("nA") {
		x.Base.names["A"] = true
	}
	if vrt.Bool("nE") {
		x.Temporal.names["E"] = true
	}
	if vrt.Bool("nMS") {
		x.names["MS"] = true
	}
	e1 := x.GetError()
	_, e2 := x.Encode()
	_ = x.String()
	_ = x.Temporal.String()
	_ = x.Base.String()
	vrt.Assert((e1 != nil) == (e2 != nil), "Encode fails exactly when the object is not valid")
	vrt.Reach("observers of an arbitrary state return")
}

// a decoded vector with one exported field (or the version) reset to its unknown / invalid value:
// validity and encoding report an error and the score is 0 at every level that includes the field.
func VH_C12_v3_field_reset() {
	vec, _, _, _, _, _, _, _, _, _ := pickBaseVector()
	tsuf, _, _, _ := pickTemporal()
	esuf, _, _, _, _, _, _, _, _, _, _, _ := pickEnv()
	em, err := NewEnvironmental().Decode(vec + tsuf + esuf)
	vrt.Assert(err == nil, "canonical environmental vector is accepted")
	if err != nil {
		return
	}
	w := vrt.Enum("which", 0, 22)
	switch w {
	case 0:
		em.Ver = VUnknown
	case 1:
		em.AV = AttackVectorUnknown
	case 2:
		em.AC = AttackComplexityUnknown
	case 3:
		em.PR = PrivilegesRequiredUnknown
	case 4:
		em.UI = UserInteractionUnknown
	case 5:
		em.S = ScopeUnknown
	case 6:
		em.C = ConfidentialityImpactUnknown
	case 7:
		em.I = IntegrityImpactUnknown
	case 8:
		em.A = AvailabilityImpactUnknown
	case 9:
		em.E = ExploitabilityInvalid
	case 10:
		em.RL = RemediationLevelInvalid
	case 11:
		em.RC = ReportConfidenceInvalid
	case 12:
		em.CR = ConfidentialityRequirementInvalid
	case 13:
		em.IR = IntegrityRequirementInvalid
	case 14:
		em.AR = AvailabilityRequirementInvalid
	case 15:
		em.MAV = ModifiedAttackVectorInvalid
	case 16:
		em.MAC = ModifiedAttackComplexityInvalid
	case 17:
		em.MPR = ModifiedPrivilegesRequiredInvalid
	case 18:
		em.MUI = ModifiedUserInteractionInvalid
	case 19:
		em.MS = ModifiedScopeInvalid
	case 20:
		em.MC = ModifiedConfidentialityImpactInvalid
	case 21:
		em.MI = ModifiedIntegrityImpactInvalid
	case 22:
		em.MA = ModifiedAvailabilityInvalid
	}
	a, b, s := observeEnv(em)
	vrt.Assert(a && b && s == 0, "environmental level: GetError and Encode fail, Score is 0")
	if w <= 11 {
		a, b, s = observeTemporal(em.TemporalMetrics())
		vrt.Assert(a && b && s == 0, "temporal level: GetError and Encode fail, Score is 0")
	}
	if w <= 8 {
		a, b, s = observeBase(em.BaseMetrics())
		vrt.Assert(a && b && s == 0, "base level: GetError and Encode fail, Score is 0")
	}
}

// Decode through a nil receiver behaves as through a fresh object.
func VH_C12_v3_nil_decode() {
	vec, _, _, _, _, _, _, _, _, _ := pickBaseVector()
	bad := vrt.StringNo("bad", "/")
	var nb *Base
	var nt *Temporal
	var ne *Environmental
	b1, e1 := nb.Decode(vec)
	b2, e2 := NewBase().Decode(vec)
	vrt.Assert(e1 == nil && e2 == nil && b1 != nil && b1.AV == b2.AV && b1.A == b2.A && b1.Ver == b2.Ver && b1.Score() == b2.Score(), "nil *Base decodes like a fresh Base")
	t1, e3 := nt.Decode(vec)
	vrt.Assert(e3 == nil && t1 != nil && t1.Score() == b2.Score(), "nil *Temporal decodes like a fresh Temporal")
	m1, e4 := ne.Decode(vec)
	vrt.Assert(e4 == nil && m1 != nil && m1.BaseMetrics().Score() == b2.Score(), "nil *Environmental decodes like a fresh Environmental")
	b3, e5 := nb.Decode(bad)
	t3, e6 := nt.Decode(bad)
	m3, e7 := ne.Decode(bad)
	vrt.Assert(b3 == nil && e5 != nil && t3 == nil && e6 != nil && m3 == nil && e7 != nil, "a string without '/' is rejected through nil receivers as well")
}
