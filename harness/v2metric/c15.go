package metric

import vrt "github.com/goark/go-cvss/internal/zzvrt"

func queryAll(em *Environmental) {
	_ = em.Score()
	_ = em.Severity()
	_ = em.GetError()
	_, _ = em.Encode()
	_ = em.String()
	_ = em.IsEmpty()
	_ = em.BaseMetrics()
	_ = em.TemporalMetrics()
	tm := em.Temporal
	_ = tm.Score()
	_ = tm.Severity()
	_ = tm.GetError()
	_, _ = tm.Encode()
	_ = tm.String()
	_ = tm.IsEmpty()
	_ = tm.BaseMetrics()
	bm := em.Base
	_ = bm.Score()
	_ = bm.Severity()
	_ = bm.GetError()
	_, _ = bm.Encode()
	_ = bm.String()
}

// C15/C16 (v2): queries on every decoded object (groups present or absent) write nothing.
func VH_C15_v2_queries_frame() {
	vec, _, _, _, _, _, _ := pickBase()
	tp := vrt.Pick("tgroup", "absent", "present")
	ep := vrt.Pick("egroup", "absent", "present")
	tsuf, _, _, _ := pickTemporal()
	esuf, _, _, _, _, _ := pickEnv()
	if tp == "present" {
		vec = vec + tsuf
	}
	if ep == "present" {
		vec = vec + esuf
	}
	em, err := NewEnvironmental().Decode(vec)
	vrt.Assert(err == nil, "accepted")
	if err != nil {
		return
	}
	s1 := em.Score()
	e1, _ := em.Encode()
	vrt.FrameWatch(em)
	vrt.FrameBegin()
	queryAll(em)
	vrt.FrameUnchanged("queries on a decoded object write nothing (object, names maps, package-level tables)")
	s2 := em.Score()
	e2, _ := em.Encode()
	vrt.Assert(s1 == s2 && e1 == e2, "repeating a query after other queries returns the identical result")
}

func VH_C15_v2_queries_frame_arbitrary() {
	x := NewEnvironmental()
	x.AV = AccessVector(vrt.Int("AV"))
	x.AC = AccessComplexity(vrt.Int("AC"))
	x.Au = Authentication(vrt.Int("Au"))
	x.C = ConfidentialityImpact(vrt.Int("C"))
	x.I = IntegrityImpact(vrt.Int("I"))
	x.A = AvailabilityImpact(vrt.Int("A"))
	x.E = Exploitability(vrt.Int("E"))
	x.RL = RemediationLevel(vrt.Int("RL"))
	x.RC = ReportConfidence(vrt.Int("RC"))
	x.CDP = CollateralDamagePotential(vrt.Int("CDP"))
	x.TD = TargetDistribution(vrt.Int("TD"))
	x.CR = ConfidentialityRequirement(vrt.Int("CR"))
	if vrt.Bool("nAV") {
		x.Base.names["AV"] = true
	}
	if vrt.Bool("nE") {
		x.Temporal.names["E"] = true
	}
	if vrt.Bool("nTD") {
		x.names["TD"] = true
	}
	var nilEnv *Environmental
	vrt.FrameWatch(x)
	vrt.FrameBegin()
	_ = x.GetError()
	_, _ = x.Encode()
	_ = x.String()
	_ = x.IsEmpty()
	_ = x.Temporal.IsEmpty()
	_ = x.Severity()
	_ = x.BaseMetrics()
	_ = x.TemporalMetrics()
	_ = nilEnv.GetError()
	_ = nilEnv.Score()
	_ = nilEnv.String()
	_ = nilEnv.IsEmpty()
	queryAll(NewEnvironmental())
	vrt.FrameUnchanged("queries on arbitrary, nil and fresh objects write nothing")
}

func VH_C15_v2_decode_frame() {
	t1 := vrt.StringNo("t1", "/")
	t2 := vrt.StringNo("t2", "/")
	other := NewEnvironmental()
	vrt.FrameWatch(other)
	vrt.FrameBegin()
	_, _ = NewEnvironmental().Decode(t1 + "/" + t2)
	_, _ = NewTemporal().Decode(t1)
	_, _ = NewBase().Decode(t2)
	vrt.FrameUnchanged("Decode writes only to objects it allocates: package-level tables and other objects are untouched")
}

func VH_C15_v2_decode_frame_valid() {
	vec, _, _, _, _, _, _ := pickBase()
	tsuf, _, _, _ := pickTemporal()
	esuf, _, _, _, _, _ := pickEnv()
	other, _ := NewEnvironmental().Decode(vec + tsuf + esuf)
	vrt.FrameWatch(other)
	vrt.FrameBegin()
	em, err := NewEnvironmental().Decode(vec + tsuf + esuf)
	vrt.FrameUnchanged("decoding a valid vector writes only to the new object")
	vrt.Assert(err == nil && other != nil && em != other && em.Temporal != other.Temporal && em.Base != other.Base, "each decode returns fresh objects")
}

func VH_C15_v2_fresh() {
	a := NewEnvironmental()
	b := NewEnvironmental()
	tok := vrt.String("tok")
	vrt.Assert(a != b && a.Temporal != b.Temporal && a.Base != b.Base, "constructors return distinct objects")
	vrt.FrameWatch(b)
	vrt.FrameBegin()
	vrt.FrameExempt(a)
	_ = a.decodeOne(tok)
	vrt.FrameUnchanged("a decode step on one object changes neither another object nor any package-level table")
	vrt.Assert(!b.names[tok] && !b.Temporal.names[tok] && !b.Base.names[tok] && b.IsEmpty() && b.Temporal.IsEmpty(), "the other object's names maps are still empty")
}

// history-freedom, observationally (v2): see the v3 counterpart.
func VH_C15_v2_history() {
	vec1, _, _, _, _, _, _ := pickBase()
	esuf1, _, _, _, _, _ := pickEnv()
	vec2, _, _, _, _, _, _ := pickBase()
	tsuf2, _, _, _ := pickTemporal()
	esuf2, _, _, _, _, _ := pickEnv()
	junk := vrt.StringNo("junk", "/")
	if vrt.HistoryStep() {
		em1, err1 := NewEnvironmental().Decode(vec1 + esuf1)
		if err1 == nil {
			_ = em1.Score()
			_ = em1.Severity()
			_, _ = em1.Encode()
			_ = em1.IsEmpty()
			_ = em1.TemporalMetrics().Score()
			_ = em1.BaseMetrics().Score()
		}
		_, _ = NewEnvironmental().Decode(junk)
		_, _ = NewBase().Decode(vec1 + "/" + junk)
	}
	em2, err := NewEnvironmental().Decode(vec2 + tsuf2 + esuf2)
	vrt.Observe("accepted", err == nil)
	if err != nil {
		return
	}
	enc, _ := em2.Encode()
	vrt.Observe("score", em2.Score())
	vrt.Observe("severity", int(em2.Severity()))
	vrt.Observe("encoding", enc)
	vrt.Observe("temporal score", em2.TemporalMetrics().Score())
	vrt.Observe("base score", em2.BaseMetrics().Score())
}

// C09/C14/C15 (v2): a decoder object used for a second Decode; see the v3 counterpart.
func VH_C15_v2_reuse() {
	vec1, _, _, _, _, _, _ := pickBase()
	tsuf1, _, _, _ := pickTemporal()
	esuf1, _, _, _, _, _ := pickEnv()
	vec2, _, _, _, _, _, _ := pickBase()
	tsuf2, _, _, _ := pickTemporal()
	esuf2, _, _, _, _, _ := pickEnv()
	first := vec1
	if vrt.Pick("tgroup1", "absent", "present") == "present" {
		first = first + tsuf1
	}
	if vrt.Pick("egroup1", "absent", "present") == "present" {
		first = first + esuf1
	}
	second := vec2
	if vrt.Pick("tgroup2", "absent", "present") == "present" {
		second = second + tsuf2
	}
	if vrt.Pick("egroup2", "absent", "present") == "present" {
		second = second + esuf2
	}
	d := NewEnvironmental()
	_, _ = d.Decode(first)
	got, err := d.Decode(second)
	if err == nil {
		fresh, ferr := NewEnvironmental().Decode(second)
		ge, _ := got.Encode()
		fe, _ := fresh.Encode()
		gt, _ := got.TemporalMetrics().Encode()
		ft, _ := fresh.TemporalMetrics().Encode()
		gb, _ := got.BaseMetrics().Encode()
		fb, _ := fresh.BaseMetrics().Encode()
		vrt.Assert(ferr == nil && ge == fe && gt == ft && gb == fb && got.IsEmpty() == fresh.IsEmpty() && got.TemporalMetrics().IsEmpty() == fresh.TemporalMetrics().IsEmpty(), "IF: a v2 environmental decoder that accepts a second vector returns what a fresh decoder returns (all three views)")
	}
	vrt.Reach("reuse harness runs to its end")
}
