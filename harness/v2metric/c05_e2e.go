package metric

import vrt "github.com/goark/go-cvss/internal/zzvrt"

// C05 end to end through the exported API only, evaluated natively on ONE input (the counterexample of a
// step of the chain harness VH_C05_env, which is stated over unexported functions): the environmental score
// is the FIRST chain  AdjustedImpact -> AdjustedBase -> AdjustedTemporal -> Environmental, where the adjusted
// impact and the exploitability may each be rounded to two decimals first (known finding F1) and every
// one-decimal rounding may go either way at an exact half.
func VH_C05_env_e2e() {
	vec, av, ac, au, c, i, a := pickBase()
	tp := vrt.Pick("tgroup", "absent", "present")
	tsuf, e, rl, rc := pickTemporal()
	esuf, cdp, td, cr, ir, ar := pickEnv()
	if tp == "present" {
		vec = vec + tsuf
	}
	em, err := NewEnvironmental().Decode(vec + esuf)
	vrt.Assert(err == nil && em != nil, "canonical v2 environmental vector is accepted")
	if err != nil {
		return
	}
	gi := tenthIndex(em.Score())
	vrt.Assert(em.Score() == tenth(gi), "environmental score is on the tenth grid")
	exactAI := specAdjImpact(c, i, a, cr, ir, ar)
	a1, a2 := round2(exactAI)
	ex := specExpl(av, ac, au)
	e1, e2 := round2(ex)
	ok := false
	for _, ai := range []R{exactAI, a1, a2} {
		for _, xp := range []R{ex, e1, e2} {
			b1, b2 := round1(specBaseEq(ai, xp))
			for _, b := range []int{b1, b2} {
				ats := []int{b}
				if tp == "present" {
					t1, t2 := round1(specTempEq(b, e, rl, rc))
					ats = []int{t1, t2}
				}
				for _, at := range ats {
					atR := vrt.RDivInt(vrt.RInt(at), 10)
					x := vrt.RMul(vrt.RAdd(atR, vrt.RMul(vrt.RSub(vrt.RInt(10), atR), specCDP(cdp))), specTD(td))
					g1, g2 := round1(x)
					if gi == g1 || gi == g2 {
						ok = true
					}
				}
			}
		}
	}
	vrt.Assert(ok, "environmental score is the FIRST environmental chain (sub-scores up to the two-decimal rounding of finding F1)")
}
