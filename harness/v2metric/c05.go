package metric

import vrt "github.com/goark/go-cvss/internal/zzvrt"

func pickEnv() (suffix string, cdp, td, cr, ir, ar string) {
	cdp = vrt.Pick("CDP", "ND", "N", "L", "LM", "MH", "H")
	td = vrt.Pick("TD", "ND", "N", "L", "M", "H")
	cr = vrt.Pick("CR", "ND", "L", "M", "H")
	ir = vrt.Pick("IR", "ND", "L", "M", "H")
	ar = vrt.Pick("AR", "ND", "L", "M", "H")
	suffix = "/CDP:" + cdp + "/TD:" + td + "/CR:" + cr + "/IR:" + ir + "/AR:" + ar
	return
}

// envFromTemp: admissible environmental results for an adjusted temporal score t (tenth index).
func envFromTemp(got float64, t int, cdp, td string) bool {
	at := vrt.RDivInt(vrt.RInt(t), 10)
	x := vrt.RMul(vrt.RAdd(at, vrt.RMul(vrt.RSub(vrt.RInt(10), at), specCDP(cdp))), specTD(td))
	a, b := round1(x)
	return in2(got, a, b)
}

// envFromBase: admissible results for an adjusted base score b (tenth index).
func envFromBase(got float64, b int, tpresent bool, e, rl, rc, cdp, td string) bool {
	if !tpresent {
		return envFromTemp(got, b, cdp, td)
	}
	t1, t2 := round1(specTempEq(b, e, rl, rc))
	return envFromTemp(got, t1, cdp, td) || envFromTemp(got, t2, cdp, td)
}

func envFromEq(got float64, x R, tpresent bool, e, rl, rc, cdp, td string) bool {
	b1, b2 := round1(x)
	return envFromBase(got, b1, tpresent, e, rl, rc, cdp, td) || envFromBase(got, b2, tpresent, e, rl, rc, cdp, td)
}

// C05: all 729 x 101 x 1,920 vectors with an environmental group.
func VH_C05_env() {
	vec, av, ac, au, c, i, a := pickBase()
	tp := vrt.Pick("tgroup", "absent", "present")
	tsuf, e, rl, rc := pickTemporal()
	esuf, cdp, td, cr, ir, ar := pickEnv()
	tpresent := tp == "present"
	if tpresent {
		vec = vec + tsuf
	}
	em, err := NewEnvironmental().Decode(vec + esuf)
	vrt.Assert(err == nil && em != nil, "canonical v2 environmental vector is accepted")
	if err != nil {
		return
	}
	got := em.Score()
	ai := specAdjImpact(c, i, a, cr, ir, ar)
	ex := specExpl(av, ac, au)
	eq := specBaseEq(ai, ex)
	neg := vrt.RLt(eq, vrt.RInt(0))
	inSpec := envFromEq(got, eq, tpresent, e, rl, rc, cdp, td) || (neg && got == 0)
	// deviation model (finding F1): AdjustedImpact and Exploitability rounded to two decimals first
	a1, a2 := round2(ai)
	e1, e2 := round2(ex)
	inDev := envFromEq(got, specBaseEq(a1, e1), tpresent, e, rl, rc, cdp, td) ||
		envFromEq(got, specBaseEq(a1, e2), tpresent, e, rl, rc, cdp, td) ||
		envFromEq(got, specBaseEq(a2, e1), tpresent, e, rl, rc, cdp, td) ||
		envFromEq(got, specBaseEq(a2, e2), tpresent, e, rl, rc, cdp, td)
	vrt.Assert(inSpec || inDev, "v2 environmental score is the FIRST equation, or the FIRST equation with two-decimal sub-scores (finding F1)")
	vrt.Assert(inSpec, "KF:F1-env: v2 environmental score equals the FIRST equation on unrounded sub-scores")
	if td == "N" {
		vrt.Assert(got == 0, "Target Distribution None: environmental score is 0")
	}
}

// C05: environmental group absent -> environmental score equals the temporal score.
func VH_C05_env_absent() {
	vec, _, _, _, _, _, _ := pickBase()
	tp := vrt.Pick("tgroup", "absent", "present")
	tsuf, _, _, _ := pickTemporal()
	if tp == "present" {
		vec = vec + tsuf
	}
	em, err := NewEnvironmental().Decode(vec)
	vrt.Assert(err == nil && em != nil, "vector without environmental group accepted by the environmental decoder")
	if err != nil {
		return
	}
	vrt.Assert(em.Score() == em.Temporal.Score(), "environmental group absent: environmental score equals the temporal score")
	tm, err2 := NewTemporal().Decode(vec)
	vrt.Assert(err2 == nil, "same vector accepted by the temporal decoder")
	if err2 == nil {
		vrt.Assert(em.Score() == tm.Score(), "environmental score equals the score of an independent temporal decode")
	}
}
