package metric

import (
	"math"

	vrt "github.com/goark/go-cvss/internal/zzvrt"
)

func pickEnv() (suffix string, cdp, td, cr, ir, ar string) {
	cdp = vrt.Pick("CDP", "ND", "N", "L", "LM", "MH", "H")
	td = vrt.Pick("TD", "ND", "N", "L", "M", "H")
	cr = vrt.Pick("CR", "ND", "L", "M", "H")
	ir = vrt.Pick("IR", "ND", "L", "M", "H")
	ar = vrt.Pick("AR", "ND", "L", "M", "H")
	suffix = "/CDP:" + cdp + "/TD:" + td + "/CR:" + cr + "/IR:" + ir + "/AR:" + ar
	return
}

// C05: all 729 x 101 x 1,920 vectors with an environmental group, as a chain of step lemmas on the
// library's own intermediate values (each intermediate is recomputed here with the same expression the
// library uses, so that it is the very same term; the last assertion ties Score() to the chain):
//   adjusted impact -> adjusted base score -> adjusted temporal score -> environmental score.
func VH_C05_env() {
	vec, av, ac, au, c, i, a := pickBase()
	tp := vrt.Pick("tgroup", "absent", "present")
	tsuf, e, rl, rc := pickTemporal()
	esuf, cdp, td, cr, ir, ar := pickEnv()
	tpresent := tp == "present"
	if tpresent {
		vec = vec + tsuf
	}
	em, err := NewEnvironmental().Decode(vec + esuf)
	vrt.Assert(err == nil && em != nil, "canonical v2 environmental vector is accepted")
	if err != nil {
		return
	}
	// step 1: adjusted impact
	ai := math.Min(10.0, roundTo2Decimal(10.41*(1-(1-em.C.Value()*em.CR.Value())*(1-em.I.Value()*em.IR.Value())*(1-em.A.Value()*em.AR.Value()))))
	ak := hundredthIndex(ai)
	vrt.Assert(ai == float64(ak)/100, "adjusted impact (as the library computes it) is on the 0.01 grid")
	aiR := vrt.RDivInt(vrt.RInt(ak), 100)
	exactAI := specAdjImpact(c, i, a, cr, ir, ar)
	a1, a2 := round2i(exactAI)
	vrt.Assert(ak == a1 || ak == a2, "adjusted impact is min(10, 10.41 x (1 - prod)) up to the two-decimal rounding of finding F1")
	vrt.Assert(vrt.REq(aiR, exactAI), "KF:F1-env: adjusted impact is used unrounded")
	// step 2: adjusted base score = base equation on (adjusted impact, exploitability)
	vrt.Assert(!em.IsEmpty() && em.Temporal.IsEmpty() == !tpresent, "group emptiness is reported as written")
	var b float64
	if em.IsEmpty() { // mirrors the structure of Score(), so that the intermediates are the library's own terms
		b = em.Base.Score()
	} else {
		b = em.Base.score(ai)
	}
	bi := tenthIndex(b)
	vrt.Assert(b == tenth(bi), "adjusted base score is on the tenth grid")
	ex := specExpl(av, ac, au)
	e1, e2 := round2(ex)
	s1, s2 := round1(specBaseEq(aiR, ex))
	d1, d2 := round1(specBaseEq(aiR, e1))
	d3, d4 := round1(specBaseEq(aiR, e2))
	inSpec := bi == s1 || bi == s2
	vrt.Assert(inSpec || bi == d1 || bi == d2 || bi == d3 || bi == d4, "adjusted base score is the base equation on the adjusted impact (exploitability up to the two-decimal rounding of finding F1)")
	vrt.Assert(inSpec, "KF:F1-env-expl: exploitability is used unrounded in the adjusted base score")
	// step 3: adjusted temporal score
	var at float64
	if em.Temporal.IsEmpty() {
		at = b
	} else {
		at = em.Temporal.score(b)
	}
	ti := tenthIndex(at)
	vrt.Assert(at == tenth(ti), "adjusted temporal score is on the tenth grid")
	if tpresent {
		t1, t2 := round1(specTempEq(bi, e, rl, rc))
		vrt.Assert(ti == t1 || ti == t2, "adjusted temporal score = round1(adjusted base x E x RL x RC)")
	}
	// step 4: environmental score = the outer equation applied to the adjusted temporal score
	// (the outer equation itself is checked for every grid value by VH_C05_outer_kernel)
	score := em.Score()
	vrt.Assert(ti >= -20 && ti <= 100, "adjusted temporal score lies within the range covered by the outer-equation lemma")
	vrt.Assert(score == roundTo1Decimal((at+(10-at)*em.CDP.Value())*em.TD.Value()), "environmental score is the outer equation applied to the adjusted temporal score")
	vrt.Assert(em.CDP == specCodeCDP(cdp) && em.TD == specCodeTD(td), "CDP and TD hold the written values")
}

// C05 outer-equation lemma: for every adjusted temporal score on the tenth grid in [-2.0, 10.0] and every
// CDP / TD value, roundTo1Decimal((at + (10-at) x CDP) x TD) with the library's weights is the FIRST
// equation rounded to one decimal (either neighbour at an exact half), and 0 when TD is None.
func VH_C05_outer_kernel() {
	k := vrt.Enum("at", -20, 100)
	cdp := vrt.Pick("CDP", "ND", "N", "L", "LM", "MH", "H")
	td := vrt.Pick("TD", "ND", "N", "L", "M", "H")
	at := tenth(k)
	got := roundTo1Decimal((at + (10-at)*GetCollateralDamagePotential(cdp).Value()) * GetTargetDistribution(td).Value())
	gi := tenthIndex(got)
	vrt.Assert(got == tenth(gi), "result is on the tenth grid")
	atR := vrt.RDivInt(vrt.RInt(k), 10)
	x := vrt.RMul(vrt.RAdd(atR, vrt.RMul(vrt.RSub(vrt.RInt(10), atR), specCDP(cdp))), specTD(td))
	g1, g2 := round1(x)
	vrt.Assert(gi == g1 || gi == g2, "outer equation = round1((AdjustedTemporal + (10 - AdjustedTemporal) x CDP) x TD)")
	if td == "N" {
		vrt.Assert(got == 0, "Target Distribution None: environmental score is 0")
	}
	if k >= 0 {
		vrt.Assert(gi >= 0 && gi <= 100, "non-negative adjusted temporal scores give environmental scores in 0.0 .. 10.0")
	}
}

// C05: environmental group absent -> environmental score equals the temporal score.
func VH_C05_env_absent() {
	vec, _, _, _, _, _, _ := pickBase()
	tp := vrt.Pick("tgroup", "absent", "present")
	tsuf, _, _, _ := pickTemporal()
	if tp == "present" {
		vec = vec + tsuf
	}
	em, err := NewEnvironmental().Decode(vec)
	vrt.Assert(err == nil && em != nil, "vector without environmental group accepted by the environmental decoder")
	if err != nil {
		return
	}
	vrt.Assert(em.Score() == em.Temporal.Score(), "environmental group absent: environmental score equals the temporal score")
	tm, err2 := NewTemporal().Decode(vec)
	vrt.Assert(err2 == nil, "same vector accepted by the temporal decoder")
	if err2 == nil {
		vrt.Assert(em.Score() == tm.Score(), "environmental score equals the score of an independent temporal decode")
	}
}
