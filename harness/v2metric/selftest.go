package metric

import vrt "github.com/goark/go-cvss/internal/zzvrt"

// Translator validation harness (symgo selftest): one concrete vector through the three v2 decoders.
func VH_ST_v2() {
	vec := vrt.String("vec")
	bm, e1 := NewBase().Decode(vec)
	vrt.Observe("base.err", errClass(e1))
	if e1 == nil {
		s, _ := bm.Encode()
		vrt.Observe("base.enc", s)
		vrt.Observe("base.score", bm.Score()+0)
		vrt.Observe("base.sev", int(bm.Severity()))
		vrt.Observe("base.fields", int(bm.AV)*100000+int(bm.AC)*10000+int(bm.Au)*1000+int(bm.C)*100+int(bm.I)*10+int(bm.A))
	}
	tm, e2 := NewTemporal().Decode(vec)
	vrt.Observe("temporal.err", errClass(e2))
	if e2 == nil {
		s, _ := tm.Encode()
		vrt.Observe("temporal.enc", s)
		vrt.Observe("temporal.score", tm.Score()+0)
		vrt.Observe("temporal.sev", int(tm.Severity()))
		vrt.Observe("temporal.empty", tm.IsEmpty())
	}
	em, e3 := NewEnvironmental().Decode(vec)
	vrt.Observe("env.err", errClass(e3))
	if e3 == nil {
		s, _ := em.Encode()
		vrt.Observe("env.enc", s)
		vrt.Observe("env.score", em.Score()+0)
		vrt.Observe("env.sev", int(em.Severity()))
		vrt.Observe("env.empty", em.IsEmpty())
		vrt.Observe("env.fields", int(em.CDP)*10000+int(em.TD)*1000+int(em.CR)*100+int(em.IR)*10+int(em.AR))
	}
}
