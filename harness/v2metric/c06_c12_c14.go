package metric

import (
	"strconv"

	vrt "github.com/goark/go-cvss/internal/zzvrt"
)

// v2 qualitative bands (NVD): Low 0.0-3.9, Medium 4.0-6.9, High 7.0-10.0.
func specSeverity(k int) Severity {
	switch {
	case k >= 0 && k <= 39:
		return SeverityLow
	case k >= 40 && k <= 69:
		return SeverityMedium
	case k >= 70 && k <= 100:
		return SeverityHigh
	}
	return SeverityUnknown
}

func specFmt(k int) string {
	if k%10 == 0 {
		return strconv.Itoa(k / 10)
	}
	return strconv.Itoa(k/10) + "." + strconv.Itoa(k%10)
}

func gridAndBand(score float64, sev Severity) {
	k := tenthIndex(score)
	vrt.Assert(score == tenth(k) && k >= 0 && k <= 100, "score is a multiple of 0.1 between 0.0 and 10.0")
	vrt.Assert(strconv.FormatFloat(score+0, 'f', -1, 64) == specFmt(k), "score prints with at most one decimal digit")
	vrt.Assert(sev == specSeverity(k), "severity is the rating band of the score of the same level")
}

// C06, v2 base and temporal levels (complete domains, temporal group present or absent).
func VH_C06_v2_base_temporal() {
	vec, _, _, _, _, _, _ := pickBase()
	tp := vrt.Pick("tgroup", "absent", "present")
	tsuf, _, _, _ := pickTemporal()
	if tp == "present" {
		vec = vec + tsuf
	}
	tm, err := NewTemporal().Decode(vec)
	vrt.Assert(err == nil, "accepted")
	if err != nil {
		return
	}
	gridAndBand(tm.Score(), tm.Severity())
	gridAndBand(tm.Base.Score(), tm.Base.Severity())
}

// C06, v2 environmental level: the score is on the tenth grid (C05 chain); where the specification's
// adjusted base equation is not negative it lies in 0.0 .. 10.0 and the severity is its band.
func VH_C06_v2_env() {
	vec, av, ac, au, c, i, a := pickBase()
	tp := vrt.Pick("tgroup", "absent", "present")
	tsuf, _, _, _ := pickTemporal()
	esuf, _, _, cr, ir, ar := pickEnv()
	if tp == "present" {
		vec = vec + tsuf
	}
	em, err := NewEnvironmental().Decode(vec + esuf)
	vrt.Assert(err == nil, "accepted")
	if err != nil {
		return
	}
	score := em.Score()
	k := tenthIndex(score)
	vrt.Assert(score == tenth(k), "environmental score is on the tenth grid")
	neg := vrt.RLt(specBaseEq(specAdjImpact(c, i, a, cr, ir, ar), specExpl(av, ac, au)), vrt.RInt(0))
	if !neg {
		vrt.Assert(k >= 0 && k <= 100, "environmental score is between 0.0 and 10.0 (specification equation not negative)")
		vrt.Assert(em.Severity() == specSeverity(k), "environmental severity is the rating band of the environmental score")
	}
}

// v2 severity kernel: every float64.
func VH_C06_v2_severity_kernel() {
	x := vrt.Float("x")
	s := severity(x)
	vrt.Assert(!(x >= 0 && x < 4.0) || s == SeverityLow, "[0, 4.0) is Low")
	vrt.Assert(!(x >= 4.0 && x < 7.0) || s == SeverityMedium, "[4.0, 7.0) is Medium")
	vrt.Assert(!(x >= 7.0 && x <= 10.0) || s == SeverityHigh, "[7.0, 10.0] is High")
	vrt.Assert(severity(3.9) == SeverityLow && severity(4.0) == SeverityMedium && severity(6.9) == SeverityMedium && severity(7.0) == SeverityHigh && severity(0) == SeverityLow && severity(10.0) == SeverityHigh, "band edges")
}

// ---------------------------------------------------------------------------
// C12 observer matrix, v2

func observeBase(b *Base) (bool, bool, float64) {
	e1 := b.GetError()
	_, e2 := b.Encode()
	_ = b.String()
	_ = b.Severity()
	return e1 != nil, e2 != nil, b.Score()
}

func observeTemporal(t *Temporal) (bool, bool, float64) {
	e1 := t.GetError()
	_, e2 := t.Encode()
	_ = t.String()
	_ = t.Severity()
	_ = t.BaseMetrics()
	_ = t.IsEmpty()
	return e1 != nil, e2 != nil, t.Score()
}

func observeEnv(e *Environmental) (bool, bool, float64) {
	e1 := e.GetError()
	_, e2 := e.Encode()
	_ = e.String()
	_ = e.Severity()
	_ = e.BaseMetrics()
	_ = e.TemporalMetrics()
	_ = e.IsEmpty()
	return e1 != nil, e2 != nil, e.Score()
}

func VH_C12_v2_nil_fresh() {
	var nb *Base
	var nt *Temporal
	var ne *Environmental
	a, b, s := observeBase(nb)
	vrt.Assert(a && b && s == 0, "nil *Base: GetError and Encode fail, Score is 0")
	a, b, s = observeTemporal(nt)
	vrt.Assert(a && b && s == 0, "nil *Temporal: GetError and Encode fail, Score is 0")
	a, b, s = observeEnv(ne)
	vrt.Assert(a && b && s == 0, "nil *Environmental: GetError and Encode fail, Score is 0")
	vrt.Assert(nt.BaseMetrics() == nil && ne.BaseMetrics() == nil && ne.TemporalMetrics() == nil, "accessors of nil receivers return nil")
	a, b, s = observeBase(NewBase())
	vrt.Assert(a && b && s == 0, "fresh Base: GetError and Encode fail, Score is 0")
	a, b, s = observeTemporal(NewTemporal())
	vrt.Assert(a && b && s == 0, "fresh Temporal: GetError and Encode fail, Score is 0")
	a, b, s = observeEnv(NewEnvironmental())
	vrt.Assert(a && b && s == 0, "fresh Environmental: GetError and Encode fail, Score is 0")
	vrt.Assert(NewTemporal().IsEmpty() && NewEnvironmental().IsEmpty() && NewEnvironmental().Temporal.IsEmpty(), "fresh objects report their groups empty")
}

func VH_C12_v2_arbitrary_state() {
	x := NewEnvironmental()
	x.AV = AccessVector(vrt.Int("AV"))
	x.AC = AccessComplexity(vrt.Int("AC"))
	x.Au = Authentication(vrt.Int("Au"))
	x.C = ConfidentialityImpact(vrt.Int("C"))
	x.I = IntegrityImpact(vrt.Int("I"))
	x.A = AvailabilityImpact(vrt.Int("A"))
	x.E = Exploitability(vrt.Int("E"))
	x.RL = RemediationLevel(vrt.Int("RL"))
	x.RC = ReportConfidence(vrt.Int("RC"))
	x.CDP = CollateralDamagePotential(vrt.Int("CDP"))
	x.TD = TargetDistribution(vrt.Int("TD"))
	x.CR = ConfidentialityRequirement(vrt.Int("CR"))
	x.IR = IntegrityRequirement(vrt.Int("IR"))
	x.AR = AvailabilityRequirement(vrt.Int("AR"))
	if vrt.Bool("nAV") {
		x.Base.names["AV"] = true
	}
	if vrt.Bool("nA") {
		x.Base.names["A"] = true
	}
	if vrt.Bool("nE") {
		x.Temporal.names["E"] = true
	}
	if vrt.Bool("nRC") {
		x.Temporal.names["RC"] = true
	}
	if vrt.Bool("nTD") {
		x.names["TD"] = true
	}
	e1 := x.GetError()
	_, e2 := x.Encode()
	_ = x.String()
	_ = x.Severity()
	_ = x.Temporal.Severity()
	_ = x.Base.Severity()
	vrt.Assert((e1 != nil) == (e2 != nil), "Encode fails exactly when the object is not valid")
	vrt.Reach("observers of an arbitrary state return")
}

// a decoded vector with one field of the base group or of a present group reset to its unknown / invalid value.
func VH_C12_v2_field_reset() {
	vec, _, _, _, _, _, _ := pickBase()
	tsuf, _, _, _ := pickTemporal()
	esuf, _, _, _, _, _ := pickEnv()
	em, err := NewEnvironmental().Decode(vec + tsuf + esuf)
	vrt.Assert(err == nil, "accepted")
	if err != nil {
		return
	}
	w := vrt.Enum("which", 0, 13)
	switch w {
	case 0:
		em.AV = AccessVectorUnknown
	case 1:
		em.AC = AccessComplexityUnknown
	case 2:
		em.Au = AuthenticationUnknown
	case 3:
		em.C = ConfidentialityImpactUnknown
	case 4:
		em.I = IntegrityImpactUnknown
	case 5:
		em.A = AvailabilityImpactUnknown
	case 6:
		em.E = ExploitabilityInvalid
	case 7:
		em.RL = RemediationLevelInvalid
	case 8:
		em.RC = ReportConfidenceInvalid
	case 9:
		em.CDP = CollateralDamagePotentialInvalid
	case 10:
		em.TD = TargetDistributionInvalid
	case 11:
		em.CR = ConfidentialityRequirementInvalid
	case 12:
		em.IR = IntegrityRequirementInvalid
	case 13:
		em.AR = AvailabilityRequirementInvalid
	}
	a, b, s := observeEnv(em)
	vrt.Assert(a && b && s == 0, "environmental level: GetError and Encode fail, Score is 0")
	if w <= 8 {
		a, b, s = observeTemporal(em.TemporalMetrics())
		vrt.Assert(a && b && s == 0, "temporal level: GetError and Encode fail, Score is 0")
	}
	if w <= 5 {
		a, b, s = observeBase(em.BaseMetrics())
		vrt.Assert(a && b && s == 0, "base level: GetError and Encode fail, Score is 0")
	}
}

func VH_C12_v2_nil_decode() {
	vec, _, _, _, _, _, _ := pickBase()
	bad := vrt.StringNo("bad", "/")
	var nb *Base
	var nt *Temporal
	var ne *Environmental
	b1, e1 := nb.Decode(vec)
	b2, e2 := NewBase().Decode(vec)
	vrt.Assert(e1 == nil && e2 == nil && b1 != nil && b1.AV == b2.AV && b1.A == b2.A && b1.Score() == b2.Score(), "nil *Base decodes like a fresh Base")
	t1, e3 := nt.Decode(vec)
	vrt.Assert(e3 == nil && t1 != nil && t1.Score() == b2.Score(), "nil *Temporal decodes like a fresh Temporal")
	m1, e4 := ne.Decode(vec)
	vrt.Assert(e4 == nil && m1 != nil && m1.Score() == b2.Score(), "nil *Environmental decodes like a fresh Environmental")
	b3, e5 := nb.Decode(bad)
	t3, e6 := nt.Decode(bad)
	m3, e7 := ne.Decode(bad)
	vrt.Assert(b3 == nil && e5 != nil && t3 == nil && e6 != nil && m3 == nil && e7 != nil, "a string without '/' is rejected through nil receivers as well")
}

// C14 (v2): the three views agree with independent lower-level decodes.
func VH_C14_v2_views() {
	vec, _, _, _, _, _, _ := pickBase()
	tp := vrt.Pick("tgroup", "absent", "present")
	tsuf, _, _, _ := pickTemporal()
	esuf, _, _, _, _, _ := pickEnv()
	tvec := vec
	if tp == "present" {
		tvec = vec + tsuf
	}
	em, e1 := NewEnvironmental().Decode(tvec + esuf)
	tm, e2 := NewTemporal().Decode(tvec)
	bm, e3 := NewBase().Decode(vec)
	vrt.Assert(e1 == nil && e2 == nil && e3 == nil, "all three decoders accept their part")
	if e1 != nil || e2 != nil || e3 != nil {
		return
	}
	if vrt.Bool("envFirst") {
		// the views must agree whatever was queried first on the environmental object
		_ = em.Score()
		_ = em.Severity()
	}
	vrt.Assert(em.BaseMetrics() == em.Temporal.Base && em.TemporalMetrics() == em.Temporal && tm.BaseMetrics() == tm.Base, "accessors return the embedded objects")
	eb, _ := em.BaseMetrics().Encode()
	tb, _ := tm.BaseMetrics().Encode()
	bb, _ := bm.Encode()
	vrt.Assert(em.BaseMetrics().Score() == bm.Score() && tm.BaseMetrics().Score() == bm.Score(), "base score through temporal / environmental objects equals the base decoder's")
	vrt.Assert(em.BaseMetrics().Severity() == bm.Severity() && tm.BaseMetrics().Severity() == bm.Severity(), "base severity agrees")
	vrt.Assert(eb == bb && tb == bb && bb == vec, "base encoding agrees")
	et, _ := em.TemporalMetrics().Encode()
	tt, _ := tm.Encode()
	vrt.Assert(em.TemporalMetrics().Score() == tm.Score() && em.TemporalMetrics().Severity() == tm.Severity(), "temporal score and severity through the environmental object equal the temporal decoder's")
	vrt.Assert(et == tt && tt == tvec, "temporal encoding agrees")
}


// C13 (v2) through an environmental object, whatever was queried first: temporal never exceeds base.
func VH_C13_v2_env_object() {
	vec, _, _, _, _, _, _ := pickBase()
	tsuf, e, rl, rc := pickTemporal()
	esuf, _, _, _, _, _ := pickEnv()
	em, err := NewEnvironmental().Decode(vec + tsuf + esuf)
	vrt.Assert(err == nil, "accepted")
	if err != nil {
		return
	}
	if vrt.Bool("envFirst") {
		_ = em.Score()
		_ = em.Severity()
	}
	t := em.TemporalMetrics().Score()
	b := em.BaseMetrics().Score()
	vrt.Assert(t <= b, "temporal never exceeds base (through the environmental object, in either query order)")
	if e == "ND" && rl == "ND" && rc == "ND" {
		vrt.Assert(t == b, "all temporal metrics Not Defined: temporal equals base")
	}
}

// C13 (v2): an environmental group whose five metrics are all Not Defined is score-neutral: the
// environmental score equals the temporal score (temporal group present or absent). Exported API only.
func VH_C13_v2_env_neutral() {
	vec, _, _, _, _, _, _ := pickBase()
	tp := vrt.Pick("tgroup", "absent", "present")
	tsuf, _, _, _ := pickTemporal()
	if tp == "present" {
		vec = vec + tsuf
	}
	em, err := NewEnvironmental().Decode(vec + "/CDP:ND/TD:ND/CR:ND/IR:ND/AR:ND")
	vrt.Assert(err == nil, "accepted")
	if err != nil {
		return
	}
	vrt.Assert(em.Score() == em.TemporalMetrics().Score(), "all environmental metrics Not Defined: environmental score equals temporal score")
	vrt.Assert(em.Severity() == em.TemporalMetrics().Severity(), "all environmental metrics Not Defined: same severity")
}

// C13: Target Distribution None -> the environmental score is 0, for every canonical v2
// environmental vector (729 base x (100 temporal + absent) x 6 CDP x 4^3 requirements); exported API only.
func VH_C13_v2_td_none() {
	vec, _, _, _, _, _, _ := pickBase()
	tp := vrt.Pick("tgroup", "absent", "present")
	tsuf, _, _, _ := pickTemporal()
	if tp == "present" {
		vec = vec + tsuf
	}
	cdp := vrt.Pick("CDP", "ND", "N", "L", "LM", "MH", "H")
	cr := vrt.Pick("CR", "ND", "L", "M", "H")
	ir := vrt.Pick("IR", "ND", "L", "M", "H")
	ar := vrt.Pick("AR", "ND", "L", "M", "H")
	em, err := NewEnvironmental().Decode(vec + "/CDP:" + cdp + "/TD:N/CR:" + cr + "/IR:" + ir + "/AR:" + ar)
	vrt.Assert(err == nil, "accepted")
	if err != nil {
		return
	}
	vrt.Assert(em.Score() == 0, "Target Distribution None: the environmental score is 0")
}
