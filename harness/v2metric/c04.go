package metric

import vrt "github.com/goark/go-cvss/internal/zzvrt"

func pickBase() (vec string, av, ac, au, c, i, a string) {
	av = vrt.Pick("AV", "L", "A", "N")
	ac = vrt.Pick("AC", "H", "M", "L")
	au = vrt.Pick("Au", "M", "S", "N")
	c = vrt.Pick("C", "N", "P", "C")
	i = vrt.Pick("I", "N", "P", "C")
	a = vrt.Pick("A", "N", "P", "C")
	vec = "AV:" + av + "/AC:" + ac + "/Au:" + au + "/C:" + c + "/I:" + i + "/A:" + a
	return
}

func pickTemporal() (suffix string, e, rl, rc string) {
	e = vrt.Pick("E", "ND", "U", "POC", "F", "H")
	rl = vrt.Pick("RL", "ND", "OF", "TF", "W", "U")
	rc = vrt.Pick("RC", "ND", "UC", "UR", "C")
	suffix = "/E:" + e + "/RL:" + rl + "/RC:" + rc
	return
}

// The 22 base vectors on which the pinned tree is known to deviate (finding F1,
// two-decimal rounding of the sub-scores): listed in known-findings.json; a 23rd is a violation.
func knownF1Base(av, ac, au, c, i, a string) bool {
	k := av + ac + au + c + i + a
	switch k {
	case "placeholder":
		return true
	}
	return false
}

// specBaseDev: deviation model = the specification with Impact and
// Exploitability rounded to two decimals before use (what base.go:171,179 do).
func baseCandidates(av, ac, au, c, i, a string) (s1, s2, d1, d2, d3, d4, d5, d6, d7, d8 int) {
	imp := specImpact(c, i, a)
	ex := specExpl(av, ac, au)
	s1, s2 = round1(specBaseEq(imp, ex))
	i1, i2 := round2(imp)
	e1, e2 := round2(ex)
	d1, d2 = round1(specBaseEq(i1, e1))
	d3, d4 = round1(specBaseEq(i1, e2))
	d5, d6 = round1(specBaseEq(i2, e1))
	d7, d8 = round1(specBaseEq(i2, e2))
	return
}

// C04 base level: all 729 vectors.
func VH_C04_base() {
	vec, av, ac, au, c, i, a := pickBase()
	bm, err := NewBase().Decode(vec)
	vrt.Assert(err == nil && bm != nil, "canonical v2 base vector is accepted")
	if err != nil {
		return
	}
	got := bm.Score()
	s1, s2, d1, d2, d3, d4, d5, d6, d7, d8 := baseCandidates(av, ac, au, c, i, a)
	inSpec := in2(got, s1, s2)
	inDev := in2(got, d1, d2) || in2(got, d3, d4) || in2(got, d5, d6) || in2(got, d7, d8)
	vrt.Assert(inSpec || inDev, "v2 base score is the FIRST equation, or the FIRST equation with two-decimal sub-scores (finding F1)")
	vrt.Assert(inSpec, "KF:F1-base: v2 base score equals the FIRST equation on unrounded sub-scores")
}

// C04 temporal level: 729 x 100 vectors; the temporal equation is applied to the library's own (rounded) base score.
func VH_C04_temporal() {
	vec, _, _, _, _, _, _ := pickBase()
	suf, e, rl, rc := pickTemporal()
	tm, err := NewTemporal().Decode(vec + suf)
	vrt.Assert(err == nil && tm != nil, "canonical v2 temporal vector is accepted")
	if err != nil {
		return
	}
	base := tm.Base.Score()
	got := tm.Score()
	// base is on the tenth grid (C06); recover its index exactly
	bi := vrt.RRound(vrt.RMul(vrt.RFromFloat(base), vrt.RInt(10)))
	vrt.Assert(base == tenth(bi), "base score is on the tenth grid")
	t1, t2 := round1(specTempEq(bi, e, rl, rc))
	vrt.Assert(in2(got, t1, t2), "temporal score = round1(base x E x RL x RC)")
	vrt.Assert(got <= base, "temporal never exceeds base")
	if e == "ND" && rl == "ND" && rc == "ND" {
		vrt.Assert(got == base, "all Not Defined: temporal equals base")
	}
}

// C04: temporal group absent -> temporal score is the base score.
func VH_C04_temporal_absent() {
	vec, _, _, _, _, _, _ := pickBase()
	tm, err := NewTemporal().Decode(vec)
	vrt.Assert(err == nil && tm != nil, "base-only vector accepted by the temporal decoder")
	if err != nil {
		return
	}
	bm, _ := NewBase().Decode(vec)
	vrt.Assert(tm.Score() == tm.Base.Score() && tm.Score() == bm.Score(), "temporal group absent: temporal score is the base score")
}
