package metric

import vrt "github.com/goark/go-cvss/internal/zzvrt"

// Reference model of the CVSS v2 equations (FIRST "A Complete Guide to the
// Common Vulnerability Scoring System Version 2.0", section 3.2) in exact
// arithmetic, keyed by vector-string codes.

type R = vrt.Rat

func specAV(c string) R {
	switch c {
	case "L":
		return vrt.R("0.395")
	case "A":
		return vrt.R("0.646")
	case "N":
		return vrt.R("1")
	}
	return vrt.R("0")
}
func specAC(c string) R {
	switch c {
	case "H":
		return vrt.R("0.35")
	case "M":
		return vrt.R("0.61")
	case "L":
		return vrt.R("0.71")
	}
	return vrt.R("0")
}
func specAu(c string) R {
	switch c {
	case "M":
		return vrt.R("0.45")
	case "S":
		return vrt.R("0.56")
	case "N":
		return vrt.R("0.704")
	}
	return vrt.R("0")
}
func specCIA(c string) R {
	switch c {
	case "N":
		return vrt.R("0")
	case "P":
		return vrt.R("0.275")
	case "C":
		return vrt.R("0.66")
	}
	return vrt.R("0")
}
func specE(c string) R {
	switch c {
	case "U":
		return vrt.R("0.85")
	case "POC":
		return vrt.R("0.9")
	case "F":
		return vrt.R("0.95")
	case "H", "ND":
		return vrt.R("1")
	}
	return vrt.R("0")
}
func specRL(c string) R {
	switch c {
	case "OF":
		return vrt.R("0.87")
	case "TF":
		return vrt.R("0.9")
	case "W":
		return vrt.R("0.95")
	case "U", "ND":
		return vrt.R("1")
	}
	return vrt.R("0")
}
func specRC(c string) R {
	switch c {
	case "UC":
		return vrt.R("0.9")
	case "UR":
		return vrt.R("0.95")
	case "C", "ND":
		return vrt.R("1")
	}
	return vrt.R("0")
}
func specCDP(c string) R {
	switch c {
	case "N", "ND":
		return vrt.R("0")
	case "L":
		return vrt.R("0.1")
	case "LM":
		return vrt.R("0.3")
	case "MH":
		return vrt.R("0.4")
	case "H":
		return vrt.R("0.5")
	}
	return vrt.R("0")
}
func specTD(c string) R {
	switch c {
	case "N":
		return vrt.R("0")
	case "L":
		return vrt.R("0.25")
	case "M":
		return vrt.R("0.75")
	case "H", "ND":
		return vrt.R("1")
	}
	return vrt.R("0")
}
func specReq(c string) R {
	switch c {
	case "L":
		return vrt.R("0.5")
	case "M", "ND":
		return vrt.R("1")
	case "H":
		return vrt.R("1.51")
	}
	return vrt.R("0")
}

func tenth(k int) float64 { return float64(k) / 10 }

// round1 returns the two admissible tenth indices of x (equal unless x*10 is an exact half).
func round1(x R) (int, int) {
	y := vrt.RMul(x, vrt.RInt(10))
	a := vrt.RRound(y) // half away from zero
	if vrt.RIsHalf(y) {
		if vrt.RLt(y, vrt.RInt(0)) {
			return a, a + 1
		}
		return a, a - 1
	}
	return a, a
}

// round2 (deviation model only): nearest hundredth as an index; both neighbours at a tie.
func round2i(x R) (int, int) {
	y := vrt.RMul(x, vrt.RInt(100))
	a := vrt.RRound(y)
	b := a
	if vrt.RIsHalf(y) {
		if vrt.RLt(y, vrt.RInt(0)) {
			b = a + 1
		} else {
			b = a - 1
		}
	}
	return a, b
}

func round2(x R) (R, R) {
	a, b := round2i(x)
	return vrt.RDivInt(vrt.RInt(a), 100), vrt.RDivInt(vrt.RInt(b), 100)
}

// hundredthIndex recovers k from a value on the 0.01 grid.
func hundredthIndex(x float64) int { return vrt.RRound(vrt.RMul(vrt.RFromFloat(x), vrt.RInt(100))) }

func specImpact(c, i, a string) R {
	one := vrt.RInt(1)
	return vrt.RMul(vrt.R("10.41"), vrt.RSub(one, vrt.RMul(vrt.RMul(vrt.RSub(one, specCIA(c)), vrt.RSub(one, specCIA(i))), vrt.RSub(one, specCIA(a)))))
}

func specAdjImpact(c, i, a, cr, ir, ar string) R {
	one := vrt.RInt(1)
	return vrt.RMin(vrt.RInt(10), vrt.RMul(vrt.R("10.41"), vrt.RSub(one, vrt.RMul(vrt.RMul(
		vrt.RSub(one, vrt.RMul(specCIA(c), specReq(cr))),
		vrt.RSub(one, vrt.RMul(specCIA(i), specReq(ir)))),
		vrt.RSub(one, vrt.RMul(specCIA(a), specReq(ar)))))))
}

func specExpl(av, ac, au string) R {
	return vrt.RMul(vrt.RMul(vrt.RMul(vrt.RInt(20), specAV(av)), specAC(ac)), specAu(au))
}

// specBaseEq: the (unrounded) base equation on given impact / exploitability.
func specBaseEq(impact, expl R) R {
	f := vrt.R("1.176")
	if vrt.REq(impact, vrt.RInt(0)) {
		f = vrt.RInt(0)
	}
	return vrt.RMul(vrt.RSub(vrt.RAdd(vrt.RMul(vrt.R("0.6"), impact), vrt.RMul(vrt.R("0.4"), expl)), vrt.R("1.5")), f)
}

func specTempEq(baseTenth int, e, rl, rc string) R {
	return vrt.RMul(vrt.RMul(vrt.RMul(vrt.RDivInt(vrt.RInt(baseTenth), 10), specE(e)), specRL(rl)), specRC(rc))
}

func in2(k float64, a, b int) bool { return k == tenth(a) || k == tenth(b) }

// tenthIndex recovers k from a score on the tenth grid (nearest integer to 10*x).
func tenthIndex(x float64) int { return vrt.RRound(vrt.RMul(vrt.RFromFloat(x), vrt.RInt(10))) }
