package zzvrt

import (
	"fmt"
	"reflect"
	"sort"
	"strings"
)

func init() {
	frame = func() string {
		var sb strings.Builder
		seen := map[uintptr]bool{}
		for _, o := range watched {
			dump(&sb, reflect.ValueOf(o), seen, 0)
			sb.WriteString(";")
		}
		return sb.String()
	}
}

func dump(sb *strings.Builder, v reflect.Value, seen map[uintptr]bool, depth int) {
	if depth > 8 || !v.IsValid() {
		sb.WriteString("?")
		return
	}
	switch v.Kind() {
	case reflect.Ptr:
		if v.IsNil() {
			sb.WriteString("nil")
			return
		}
		if seen[v.Pointer()] {
			sb.WriteString("@")
			return
		}
		seen[v.Pointer()] = true
		sb.WriteString("&")
		dump(sb, v.Elem(), seen, depth+1)
	case reflect.Interface:
		if v.IsNil() {
			sb.WriteString("nil")
			return
		}
		dump(sb, v.Elem(), seen, depth+1)
	case reflect.Struct:
		sb.WriteString("{")
		for i := 0; i < v.NumField(); i++ {
			sb.WriteString(v.Type().Field(i).Name + ":")
			dump(sb, v.Field(i), seen, depth+1)
			sb.WriteString(",")
		}
		sb.WriteString("}")
	case reflect.Map:
		keys := v.MapKeys()
		ss := make([]string, 0, len(keys))
		for _, k := range keys {
			var kb, vb strings.Builder
			dump(&kb, k, seen, depth+1)
			dump(&vb, v.MapIndex(k), seen, depth+1)
			ss = append(ss, kb.String()+"="+vb.String())
		}
		sort.Strings(ss)
		sb.WriteString("map[" + strings.Join(ss, " ") + "]")
	case reflect.Slice, reflect.Array:
		sb.WriteString("[")
		for i := 0; i < v.Len(); i++ {
			dump(sb, v.Index(i), seen, depth+1)
			sb.WriteString(" ")
		}
		sb.WriteString("]")
	case reflect.String:
		fmt.Fprintf(sb, "%q", v.String())
	case reflect.Bool:
		fmt.Fprintf(sb, "%v", v.Bool())
	case reflect.Int, reflect.Int8, reflect.Int16, reflect.Int32, reflect.Int64:
		fmt.Fprintf(sb, "%d", v.Int())
	case reflect.Uint, reflect.Uint8, reflect.Uint16, reflect.Uint32, reflect.Uint64, reflect.Uintptr:
		fmt.Fprintf(sb, "%d", v.Uint())
	case reflect.Float32, reflect.Float64:
		fmt.Fprintf(sb, "%x", v.Float())
	default:
		sb.WriteString(v.Kind().String())
	}
}
