package zzvrt

import (
	"encoding/json"
	"fmt"
	"os"
)

var selfOut *os.File

// SelfTest (native side of the translator validation): runs f once per vector listed in $VRT_MODEL
// ("vectors"), with String("vec") returning that vector, and writes every Observe value to path.
func SelfTest(path string, f func()) {
	b, err := os.ReadFile(os.Getenv("VRT_MODEL"))
	if err != nil {
		panic(err)
	}
	var doc struct {
		Vectors []string `json:"vectors"`
	}
	if err := json.Unmarshal(b, &doc); err != nil {
		panic(err)
	}
	out, err := os.Create(path)
	if err != nil {
		panic(err)
	}
	defer out.Close()
	selfOut = out
	for _, v := range doc.Vectors {
		Reset()
		model = map[string]interface{}{"vec": v}
		q, _ := json.Marshal(v)
		fmt.Fprintf(out, "##VEC %s\n", q)
		panicked, _, _ := RunGuarded(f)
		if panicked {
			fmt.Fprintf(out, "PANIC\n")
		}
	}
	selfOut = nil
}
