package zzvrt

import "math"

func float64frombits(u uint64) float64 { return math.Float64frombits(u) }
