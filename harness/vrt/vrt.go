// Package zzvrt is the harness runtime. The symbolic engine intercepts every
// function of this package by name; the bodies below are used only for native
// replay of solver models (go test -overlay), where values come from the JSON
// file named by $VRT_MODEL.
package zzvrt

import (
	"sync"
	"encoding/json"
	"fmt"
	"math/big"
	"os"
	"strconv"

	"golang.org/x/text/language"
)

type Failure struct{ Msg string }

var (
	mu       sync.Mutex
	// Concurrent is set by the race replay: the harness runs in several goroutines at once; labels are
	// then not numbered per occurrence (every goroutine gets the same model value for a label).
	Concurrent bool
	model    map[string]interface{}
	seen     = map[string]int{}
	Failures []string
	Reached  []string
	frame    func() string
)

func load() {
	if model != nil {
		return
	}
	model = map[string]interface{}{}
	if p := os.Getenv("VRT_MODEL"); p != "" {
		b, err := os.ReadFile(p)
		if err != nil {
			panic(err)
		}
		var doc struct {
			Values map[string]interface{} `json:"values"`
		}
		if err := json.Unmarshal(b, &doc); err != nil {
			panic(err)
		}
		model = doc.Values
	}
}

// Reset clears per-run state (labels are numbered per run).
func Reset() {
	watched = nil
	overrides = nil
	seen = map[string]int{}
	Failures = nil
	Reached = nil
}

func key(label string) string {
	if Concurrent {
		return label
	}
	n := seen[label]
	seen[label] = n + 1
	if n == 0 {
		return label
	}
	return fmt.Sprintf("%s#%d", label, n)
}

func get(label string) (interface{}, bool) {
	mu.Lock()
	defer mu.Unlock()
	load()
	v, ok := model[key(label)]
	return v, ok
}

func Int(label string) int {
	if v, ok := get(label); ok {
		switch x := v.(type) {
		case float64:
			return int(x)
		case string:
			n, _ := strconv.ParseInt(x, 10, 64)
			return int(n)
		}
	}
	return 0
}

func Enum(label string, lo, hi int) int {
	if v, ok := get(label); ok {
		switch x := v.(type) {
		case float64:
			return int(x)
		case string:
			n, _ := strconv.ParseInt(x, 10, 64)
			return int(n)
		}
	}
	return lo
}

func Bool(label string) bool {
	if v, ok := get(label); ok {
		if b, ok := v.(bool); ok {
			return b
		}
	}
	return false
}

// strings are stored as arrays of byte values to survive JSON
func str(v interface{}) string {
	switch x := v.(type) {
	case string:
		return x
	case []interface{}:
		b := make([]byte, len(x))
		for i, e := range x {
			b[i] = byte(e.(float64))
		}
		return string(b)
	}
	return ""
}

// Override fixes the value every later String(label) returns (native confirmation harnesses build concrete
// inputs for other harness functions with it). Not available to the symbolic engine.
func Override(label, value string) {
	mu.Lock()
	defer mu.Unlock()
	if overrides == nil {
		overrides = map[string]string{}
	}
	overrides[label] = value
}

var overrides map[string]string

func String(label string) string {
	mu.Lock()
	ov, has := overrides[label]
	mu.Unlock()
	if has {
		return ov
	}
	if v, ok := get(label); ok {
		return str(v)
	}
	return ""
}

// StringNo is a string that contains none of the bytes of forbidden.
func StringNo(label string, forbidden string) string { return String(label) }

func Float(label string) float64 {
	if v, ok := get(label); ok {
		if s, ok := v.(string); ok { // hex bits
			u, _ := strconv.ParseUint(s, 16, 64)
			return float64frombits(u)
		}
	}
	return 0
}

// Lang: 0 = und, 1.. = per tag table of the engine; replay maps names.
func Lang(label string) language.Tag {
	if v, ok := get(label); ok {
		switch str(v) {
		case "English":
			return language.English
		case "Japanese":
			return language.Japanese
		case "Und":
			return language.Und
		default:
			name := str(v)
			if sv, ok := get(label + ".str"); ok {
				name = str(sv)
			}
			if len(name) > 4 && name[:4] == "tag:" {
				if t, err := language.Parse(name[4:]); err == nil {
					return t
				}
			}
			return language.French
		}
	}
	return language.Und
}

// Pick returns one of opts.
func Pick(label string, opts ...string) string {
	if v, ok := get(label); ok {
		if f, ok := v.(float64); ok && int(f) >= 0 && int(f) < len(opts) {
			return opts[int(f)]
		}
	}
	return opts[0]
}

type assumeFailed struct{}

func Assume(c bool) {
	if !c {
		panic(assumeFailed{})
	}
}

func Assert(c bool, msg string) {
	if !c {
		mu.Lock()
		Failures = append(Failures, msg)
		mu.Unlock()
	}
}

func Reach(msg string) {
	mu.Lock()
	Reached = append(Reached, msg)
	mu.Unlock()
}

// FrameBegin / FrameUnchanged: the engine compares all heap cells; natively
// the harness supplies an observer through SetFrameObserver.
func SetFrameObserver(f func() string) { frame = f }

var frameBefore string

func FrameBegin() {
	if frame != nil && !Concurrent {
		frameBefore = frame()
	}
}

func FrameUnchanged(msg string) {
	if frame != nil && !Concurrent {
		if now := frame(); now != frameBefore {
			Failures = append(Failures, msg+": "+frameBefore+" -> "+now)
		}
	}
}

// SymbolicMapOrder: engine-only switch (range over package maps in an
// arbitrary symbolic order); natively Go already randomises.
func SymbolicMapOrder(on bool) {}

// RunGuarded runs f and reports whether it panicked (assumption failures are
// reported as "skipped").
func RunGuarded(f func()) (panicked bool, skipped bool, val interface{}) {
	defer func() {
		if r := recover(); r != nil {
			if _, ok := r.(assumeFailed); ok {
				skipped = true
				return
			}
			panicked = true
			val = r
		}
	}()
	f()
	return
}

// ---------------------------------------------------------------------------
// exact rationals

type Rat struct{ v *big.Rat }

func (a Rat) rat() *big.Rat {
	if a.v == nil {
		return new(big.Rat)
	}
	return a.v
}

func R(s string) Rat {
	r, ok := new(big.Rat).SetString(s)
	if !ok {
		panic("bad rational " + s)
	}
	return Rat{r}
}
func RInt(k int) Rat       { return Rat{big.NewRat(int64(k), 1)} }
func RAdd(a, b Rat) Rat    { return Rat{new(big.Rat).Add(a.rat(), b.rat())} }
func RSub(a, b Rat) Rat    { return Rat{new(big.Rat).Sub(a.rat(), b.rat())} }
func RMul(a, b Rat) Rat    { return Rat{new(big.Rat).Mul(a.rat(), b.rat())} }
func RDivInt(a Rat, k int) Rat {
	return Rat{new(big.Rat).Quo(a.rat(), big.NewRat(int64(k), 1))}
}
func RPow(a Rat, n int) Rat {
	r := big.NewRat(1, 1)
	for i := 0; i < n; i++ {
		r.Mul(r, a.rat())
	}
	return Rat{r}
}
func RMin(a, b Rat) Rat {
	if a.rat().Cmp(b.rat()) <= 0 {
		return a
	}
	return b
}
func RLe(a, b Rat) bool { return a.rat().Cmp(b.rat()) <= 0 }
func RLt(a, b Rat) bool { return a.rat().Cmp(b.rat()) < 0 }
func REq(a, b Rat) bool { return a.rat().Cmp(b.rat()) == 0 }

func floor(a *big.Rat) *big.Int {
	q, m := new(big.Int), new(big.Int)
	q.DivMod(a.Num(), a.Denom(), m)
	return q
}
func ceil(a *big.Rat) *big.Int {
	f := floor(a)
	if new(big.Rat).SetInt(f).Cmp(a) < 0 {
		f.Add(f, big.NewInt(1))
	}
	return f
}

// RFloor / RCeil / RRound (half away from zero) to integers.
func RFloor(a Rat) int { return int(floor(a.rat()).Int64()) }
func RCeil(a Rat) int  { return int(ceil(a.rat()).Int64()) }
func RRound(a Rat) int {
	half := big.NewRat(1, 2)
	if a.rat().Sign() >= 0 {
		return int(floor(new(big.Rat).Add(a.rat(), half)).Int64())
	}
	return int(ceil(new(big.Rat).Sub(a.rat(), half)).Int64())
}

// RIsHalf reports whether a lies exactly halfway between two integers.
func RIsHalf(a Rat) bool {
	d := new(big.Rat).Mul(a.rat(), big.NewRat(2, 1))
	return d.IsInt() && !a.rat().IsInt()
}

// RFromFloat converts a finite float64 exactly.
func RFromFloat(f float64) Rat {
	r, ok := new(big.Rat).SetString(strconv.FormatFloat(f, 'g', -1, 64))
	_ = ok
	r2 := new(big.Rat)
	if r2.SetFloat64(f) != nil {
		return Rat{r2}
	}
	return Rat{r}
}

// FrameExempt: the object p points to (and what it owns) may change before FrameUnchanged.
func FrameExempt(p interface{}) {}

// ---------------------------------------------------------------------------
// native frame observation (replay only): deep dump of the watched objects

var watched []interface{}

// FrameWatch registers objects whose complete state (including unexported fields, embedded
// objects and maps) FrameBegin / FrameUnchanged compare natively. The engine ignores it: it
// compares every heap cell anyway.
func FrameWatch(objs ...interface{}) {
	if Concurrent {
		return
	}
	watched = append(watched, objs...)
}

// ---------------------------------------------------------------------------
// text/template reference and abstract readers (C19)

// ---------------------------------------------------------------------------
// two-history harnesses (C15): the engine runs the harness twice, once with HistoryStep() false and
// once true, on the same symbolic inputs, and requires every Observe value to be equal. Natively the
// two runs are separate processes (VRT_PHASE=A / B) that write their observations to $VRT_OBSERVE.

func HistoryStep() bool { return os.Getenv("VRT_PHASE") == "B" }

func Observe(label string, v interface{}) {
	if selfOut != nil {
		fmt.Fprintf(selfOut, "%s=%v\n", label, v)
		return
	}
	if p := os.Getenv("VRT_OBSERVE"); p != "" {
		mu.Lock()
		defer mu.Unlock()
		f, err := os.OpenFile(p, os.O_APPEND|os.O_CREATE|os.O_WRONLY, 0o644)
		if err == nil {
			fmt.Fprintf(f, "%s=%v\n", label, v)
			f.Close()
		}
	}
}
