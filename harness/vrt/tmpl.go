package zzvrt

import (
	"bytes"
	"errors"
	"io"
	"text/template"
)

// TmplParseFails / TmplExecFails / TmplExecOut: what Go's text/template does with the template text
// over data. The engine treats them as uninterpreted functions (the same ones its model of
// template.Parse / Execute uses); natively they run text/template.
func TmplParseFails(text string) bool {
	_, err := template.New("ref").Parse(text)
	return err != nil
}

func TmplExecFails(text string, data interface{}) bool {
	t, err := template.New("ref").Parse(text)
	if err != nil {
		return false
	}
	return t.Execute(&bytes.Buffer{}, data) != nil
}

func TmplExecOut(text string, data interface{}) string {
	t, err := template.New("ref").Parse(text)
	if err != nil {
		return ""
	}
	b := &bytes.Buffer{}
	if t.Execute(b, data) != nil {
		return ""
	}
	return b.String()
}

type absReader struct {
	content []byte
	fails   bool
	partial []byte
	pos     int
}

func (r *absReader) Read(p []byte) (int, error) {
	src := r.content
	if r.fails {
		src = r.partial
	}
	if r.pos >= len(src) {
		if r.fails {
			return 0, errors.New("read failure")
		}
		return 0, io.EOF
	}
	n := copy(p, src[r.pos:])
	r.pos += n
	return n, nil
}

// Reader: an io.Reader that yields content, or yields partial and then fails.
func Reader(content string, fails bool, partial string) io.Reader {
	return &absReader{content: []byte(content), fails: fails, partial: []byte(partial)}
}

// ReadAll returns everything r yields.
func ReadAll(r io.Reader) string {
	b, _ := io.ReadAll(r)
	return string(b)
}

// chunkReader: yields c1, then c2 (together with io.EOF when eofWithData), then (0, io.EOF);
// when fails: yields c1, then (0, error).
type chunkReader struct {
	c1, c2      []byte
	eofWithData bool
	fails       bool
	pos         int
}

func (r *chunkReader) Read(p []byte) (int, error) {
	k := r.pos
	r.pos++
	switch {
	case k == 0:
		return copy(p, r.c1), nil
	case r.fails:
		return 0, errors.New("read failure")
	case k == 1:
		n := copy(p, r.c2)
		if r.eofWithData {
			return n, io.EOF
		}
		return n, nil
	}
	return 0, io.EOF
}

// ChunkReader: see chunkReader. The full content of a non-failing reader is c1 + c2.
func ChunkReader(c1, c2 string, eofWithData, fails bool) io.Reader {
	return &chunkReader{c1: []byte(c1), c2: []byte(c2), eofWithData: eofWithData, fails: fails}
}
