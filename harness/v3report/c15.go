package report

import (
	"github.com/goark/go-cvss/v3/metric"
	vrt "github.com/goark/go-cvss/internal/zzvrt"
)

// C15/C16: building reports of the three levels (any language) and exporting them with any
// template text changes nothing that existed before: the metrics objects, the reports built
// earlier, every package-level table.
func VH_C15_report_frame() {
	ver := vrt.Pick("ver", "3.0", "3.1")
	s := vrt.Pick("S", "U", "C")
	e := vrt.Pick("E", "X", "H", "F", "P", "U")
	ms := vrt.Pick("MS", "X", "U", "C")
	mc := vrt.Pick("MC", "X", "H", "L", "N")
	lang := vrt.Lang("lang")
	lang0 := vrt.Lang("lang0") // the report built before the frame may use another language than those built inside it
	text := vrt.String("text")
	em, err := metric.NewEnvironmental().Decode("CVSS:" + ver + "/AV:N/AC:L/PR:L/UI:R/S:" + s + "/C:H/I:L/A:N/E:" + e + "/RL:W/RC:R/CR:H/IR:M/AR:L/MAV:A/MAC:X/MPR:H/MUI:R/MS:" + ms + "/MC:" + mc + "/MI:X/MA:N")
	vrt.Assert(err == nil, "accepted")
	if err != nil {
		return
	}
	plain0 := NewBase(em.BaseMetrics()) // default options, built before anything else
	first := NewEnvironmental(em, WithOptionsLanguage(lang0))
	firstMC, firstSev := first.MCValue, first.SeverityValue
	vrt.FrameWatch(em, first)
	vrt.FrameBegin()
	r1 := NewEnvironmental(em, WithOptionsLanguage(lang))
	r2 := NewTemporal(em.TemporalMetrics(), WithOptionsLanguage(lang))
	r3 := NewBase(em.BaseMetrics())
	_, _ = r1.ExportWithString(text)
	_, _ = r2.ExportWithString(text)
	_, _ = r3.ExportWithString(text)
	_, _ = first.ExportWithString(text)
	vrt.FrameUnchanged("report construction and template export write nothing that existed before")
	vrt.Assert(r1 != first && r1.TemporalReport != first.TemporalReport && r1.TemporalReport.BaseReport != first.TemporalReport.BaseReport, "every report construction returns fresh report objects")
	vrt.Assert(r1.EnvironmentalScore == first.EnvironmentalScore && r1.Vector == first.Vector && first.MCValue == firstMC && first.SeverityValue == firstSev, "building the report again yields the same scores; the first report keeps its fields")
	vrt.Assert(r3.AVName == plain0.AVName && r3.AVValue == plain0.AVValue && r3.SeverityValue == plain0.SeverityValue && r3.BaseMetrics == plain0.BaseMetrics, "a report built with default options is the same whatever reports were built in other languages before")
	again := NewEnvironmental(em, WithOptionsLanguage(lang))
	vrt.Assert(r1.MCValue == again.MCValue && r1.SeverityValue == again.SeverityValue && r1.MSName == again.MSName, "building the report again in the same language yields the same fields")
}

// history-freedom of reports: building and exporting a report of one vector (any language) does not
// change the report of another vector built afterwards.
func VH_C15_report_history() {
	s1 := vrt.Pick("S", "U", "C")
	mc1 := vrt.Pick("MC", "X", "H", "L", "N")
	ver2 := vrt.Pick("ver", "3.0", "3.1")
	s2 := vrt.Pick("S", "U", "C")
	e2 := vrt.Pick("E", "X", "H", "F", "P", "U")
	ms2 := vrt.Pick("MS", "X", "U", "C")
	mc2 := vrt.Pick("MC", "X", "H", "L", "N")
	lang1 := vrt.Lang("lang1")
	lang2 := vrt.Lang("lang2")
	text := vrt.String("text")
	if vrt.HistoryStep() {
		em1, err1 := metric.NewEnvironmental().Decode("CVSS:3.0/AV:A/AC:H/PR:N/UI:N/S:" + s1 + "/C:L/I:H/A:H/E:P/RL:T/RC:U/CR:L/IR:H/AR:M/MAV:N/MAC:L/MPR:X/MUI:N/MS:X/MC:" + mc1 + "/MI:H/MA:L")
		if err1 == nil {
			r := NewEnvironmental(em1, WithOptionsLanguage(lang1))
			_, _ = r.ExportWithString(text)
			_ = NewTemporal(em1.TemporalMetrics(), WithOptionsLanguage(lang1))
			_ = NewBase(em1.BaseMetrics())
		}
	}
	em2, err := metric.NewEnvironmental().Decode("CVSS:" + ver2 + "/AV:N/AC:L/PR:L/UI:R/S:" + s2 + "/C:H/I:L/A:N/E:" + e2 + "/RL:W/RC:R/CR:H/IR:M/AR:L/MAV:A/MAC:X/MPR:H/MUI:R/MS:" + ms2 + "/MC:" + mc2 + "/MI:X/MA:N")
	vrt.Observe("accepted", err == nil)
	if err != nil {
		return
	}
	rep := NewEnvironmental(em2, WithOptionsLanguage(lang2))
	plain := NewBase(em2.BaseMetrics())
	vrt.Observe("default-language AVName", plain.AVName)
	vrt.Observe("default-language SeverityValue", plain.SeverityValue)
	vrt.Observe("MCValue", rep.MCValue)
	vrt.Observe("MSName", rep.MSName)
	vrt.Observe("EnvironmentalScore", rep.EnvironmentalScore)
	vrt.Observe("SeverityValue", rep.SeverityValue)
	vrt.Observe("base SeverityValue", rep.TemporalReport.BaseReport.SeverityValue)
	vrt.Observe("Vector", rep.Vector)
	vrt.Observe("EValue", rep.EValue)
}
