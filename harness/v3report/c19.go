package report

import (
	"errors"
	"io"

	"github.com/goark/go-cvss/cvsserr"
	"github.com/goark/go-cvss/v3/metric"
	vrt "github.com/goark/go-cvss/internal/zzvrt"
)

func only(err error, target error) bool {
	if err == nil || !errors.Is(err, target) {
		return false
	}
	n := 0
	if errors.Is(err, cvsserr.ErrNullPointer) {
		n++
	}
	if errors.Is(err, cvsserr.ErrInvalidVector) {
		n++
	}
	if errors.Is(err, cvsserr.ErrNotSupportVer) {
		n++
	}
	if errors.Is(err, cvsserr.ErrNotSupportMetric) {
		n++
	}
	if errors.Is(err, cvsserr.ErrInvalidTemplate) {
		n++
	}
	if errors.Is(err, cvsserr.ErrSameMetric) {
		n++
	}
	if errors.Is(err, cvsserr.ErrInvalidValue) {
		n++
	}
	if errors.Is(err, cvsserr.ErrNoBaseMetrics) {
		n++
	}
	if errors.Is(err, cvsserr.ErrNoTemporalMetrics) {
		n++
	}
	if errors.Is(err, cvsserr.ErrNoEnvironmentalMetrics) {
		n++
	}
	if errors.Is(err, cvsserr.ErrMisordered) {
		n++
	}
	return n == 1
}

// checkExport: the contract of one ExportWithString / ExportWith result against text/template
// (treated as the uninterpreted functions tmplParseFails / tmplExecFails / tmplExecOut).
func checkExport(r io.Reader, err error, text string, data interface{}) {
	bad := vrt.TmplParseFails(text) || vrt.TmplExecFails(text, data)
	if bad {
		vrt.Assert(r == nil && only(err, cvsserr.ErrInvalidTemplate), "a template that does not parse or execute yields the invalid-template sentinel and no output")
	} else {
		vrt.Assert(err == nil && r != nil, "a good template yields a reader and no error")
		if r != nil {
			vrt.Assert(vrt.ReadAll(r) == vrt.TmplExecOut(text, data), "the output is exactly what text/template yields for that template over the report")
		}
	}
}

// C19: any template text, any reader behaviour, the three report levels, nil reports.
func VH_C19_export() {
	text := vrt.String("text")
	c1 := vrt.String("chunk1")
	c2 := vrt.String("chunk2")
	eofWithData := vrt.Bool("eofWithData")
	fails := vrt.Bool("fails")
	content := c1 + c2 // what the reader yields in total when it does not fail
	vrt.Assume(len(c1) <= 64 && len(c2) <= 64) // chunks fit into any read buffer the library may use
	em, _ := metric.NewEnvironmental().Decode("CVSS:3.1/AV:N/AC:L/PR:N/UI:N/S:C/C:H/I:H/A:H/E:F/RL:O/RC:R/CR:H/IR:M/AR:L/MAV:A/MAC:X/MPR:L/MUI:R/MS:U/MC:L/MI:X/MA:N")
	br := NewBase(em.BaseMetrics())
	tr := NewTemporal(em.TemporalMetrics())
	er := NewEnvironmental(em)

	r1, e1 := br.ExportWithString(text)
	checkExport(r1, e1, text, br)
	r2, e2 := tr.ExportWithString(text)
	checkExport(r2, e2, text, tr)
	r3, e3 := er.ExportWithString(text)
	checkExport(r3, e3, text, er)

	// from a reader: equivalent to the string export of the reader's full content; a failing reader yields invalid-template
	r4, e4 := br.ExportWith(vrt.ChunkReader(c1, c2, eofWithData, fails))
	r5, e5 := tr.ExportWith(vrt.ChunkReader(c1, c2, eofWithData, fails))
	r6, e6 := er.ExportWith(vrt.ChunkReader(c1, c2, eofWithData, fails))
	if fails {
		vrt.Assert(r4 == nil && only(e4, cvsserr.ErrInvalidTemplate) && r5 == nil && only(e5, cvsserr.ErrInvalidTemplate) && r6 == nil && only(e6, cvsserr.ErrInvalidTemplate), "a failing reader yields the invalid-template sentinel and no output (nothing of the data read before the failure is used)")
	} else {
		checkExport(r4, e4, content, br)
		checkExport(r5, e5, content, tr)
		checkExport(r6, e6, content, er)
	}
	var nilr io.Reader
	r7, e7 := br.ExportWith(nilr)
	r8, e8 := tr.ExportWith(nilr)
	r9, e9 := er.ExportWith(nilr)
	vrt.Assert(r7 == nil && only(e7, cvsserr.ErrInvalidTemplate) && r8 == nil && only(e8, cvsserr.ErrInvalidTemplate) && r9 == nil && only(e9, cvsserr.ErrInvalidTemplate), "a nil reader yields the invalid-template sentinel and no output")

	// nil reports
	var nb *BaseReport
	var nt *TemporalReport
	var ne *EnvironmentalReport
	ra, ea := nb.ExportWithString(text)
	rb, eb := nt.ExportWithString(text)
	rc, ec := ne.ExportWithString(text)
	vrt.Assert(ra == nil && only(ea, cvsserr.ErrNullPointer) && rb == nil && only(eb, cvsserr.ErrNullPointer) && rc == nil && only(ec, cvsserr.ErrNullPointer), "a nil report yields the null-pointer sentinel and no output")
	rd, ed := nb.ExportWith(vrt.ChunkReader(c1, c2, eofWithData, fails))
	re, ee := nt.ExportWith(vrt.ChunkReader(c1, c2, eofWithData, fails))
	rf, ef := ne.ExportWith(vrt.ChunkReader(c1, c2, eofWithData, fails))
	vrt.Assert(rd == nil && re == nil && rf == nil && (only(ed, cvsserr.ErrNullPointer) || only(ed, cvsserr.ErrInvalidTemplate)) && (only(ee, cvsserr.ErrNullPointer) || only(ee, cvsserr.ErrInvalidTemplate)) && (only(ef, cvsserr.ErrNullPointer) || only(ef, cvsserr.ErrInvalidTemplate)), "a nil report with a reader yields one of the two sentinels and no output")
	if !fails {
		vrt.Assert(only(ed, cvsserr.ErrNullPointer) && only(ee, cvsserr.ErrNullPointer) && only(ef, cvsserr.ErrNullPointer), "a nil report with a good reader yields the null-pointer sentinel")
	}
}
