package report

import (
	"github.com/goark/go-cvss/v3/metric"
	vrt "github.com/goark/go-cvss/internal/zzvrt"
	"golang.org/x/text/language"
)

// Translator validation harness (symgo selftest): reports of one concrete vector.
func VH_ST_report() {
	vec := vrt.String("vec")
	em, err := metric.NewEnvironmental().Decode(vec)
	vrt.Observe("accepted", err == nil)
	if err != nil {
		return
	}
	r := NewEnvironmental(em, WithOptionsLanguage(language.Japanese))
	vrt.Observe("ja.MAVValue", r.MAVValue)
	vrt.Observe("ja.SeverityValue", r.SeverityValue)
	vrt.Observe("ja.EnvironmentalScore", r.EnvironmentalScore)
	vrt.Observe("ja.Vector", r.Vector)
	vrt.Observe("ja.base.SeverityValue", r.TemporalReport.BaseReport.SeverityValue)
	e := NewTemporal(em.TemporalMetrics())
	vrt.Observe("en.EValue", e.EValue)
	vrt.Observe("en.TemporalScore", e.TemporalScore)
	vrt.Observe("en.AVName", e.AVName)
	vrt.Observe("en.CValue", e.CValue)
	vrt.Observe("en.Version", e.Version)
}
