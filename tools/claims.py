COMPLETE = " Complete over the stated finite domain (no sampling): the metric choices are solver variables."
claim("C01",
      "Bounded symbolic model checking, complete over the finite domain: all 2 x 2,592 canonical v3 base vectors are decoded by the real Base.Decode and scored by the real Base.Score under symbolic metric choices; the solver proves that no choice makes the score differ from the exact-rational FIRST equations (v3.0 ceiling rule / v3.1 Appendix-A rule) or violates the zero-iff-no-impact rule. Thorough adds the roundUp kernel lemma over every float64 in [0,10] in pure FloatingPoint theory.",
      "Other token orders and the two higher decoders: the transposition cubes of the edit harnesses (every swap of two tokens of the canonical base / temporal vector: score and severity equal those of a twin object with the same exported fields) run under C01 as well; floats are ITE-lifted constants folded by the host FPU (DESIGN.md D-float), cross-checked in the thorough tier by 54 pure-FloatingPoint cubes decided by cvc5.",
      "DESIGN.md 6/C01")
claim("C02",
      "Complete over 518,400 temporal vectors (plus every omission pattern of E/RL/RC): the real Temporal.Decode and Temporal.Score against Roundup(base x E x RL x RC) in exact rationals, stated on the library's own base score, which in turn is proved equal to the FIRST base score in the same harness (composition written in the harness).",
      "Other token orders: the transposition cubes of the temporal edit harness run under C02 as well.",
      "DESIGN.md 6/C02")
claim("C03",
      "Complete over the 1.1e12-vector product: 100 cubes over (E,RL,RC), in each cube version, the 8 base and the 11 environmental metrics are solver variables; real Environmental.Decode and Score against the exact-rational FIRST environmental equations (effective Modified metrics, 0.915 cap, per-version polynomial, double round-up). Thorough adds a second, independent cube split over (version,S,MS) and the E=RL=RC=X harness with two solvers.",
      "z3 5.1 is the deciding solver (cvc5 does not answer these queries within 300 s; z3 4.8.12 confirms in the thorough tier).",
      "DESIGN.md 6/C03")
claim("C04",
      "Complete over 729 base vectors x (100 temporal combinations + absent): real v2 Decode/Score against the exact FIRST v2 equations with set-valued rounding at exact halves. The pinned tree deviates on exactly 22 base vectors (finding F1: two-decimal rounding of the sub-scores): the check asserts 'specification or deviation model' (must hold), lets the solver enumerate every failing base vector and compares the set with known-findings.json (a 23rd vector is a VIOLATION).",
      "Temporal step is stated on the library's own base score (composition).",
      "DESIGN.md 6/C04, 7")
claim("C05",
      "Complete over 729 x 101 x 1,920 vectors: a chain of step lemmas on the library's own intermediate values (adjusted impact, adjusted base, adjusted temporal, outer equation), each against the exact FIRST equation with set-valued rounding; the outer equation additionally as a kernel lemma over every tenth-grid input; absent environmental group equals temporal score. Finding F1 (two-decimal rounding of AdjustedImpact / Exploitability) is handled by a deviation model: anything outside specification-or-deviation is a VIOLATION.",
      "The chain is stated over unexported helpers (Base.score, Temporal.score): a counterexample of a link counts as a violation only if the native end-to-end oracle VH_C05_env_e2e (exported API, exact rationals, F1 deviation model) confirms it on the same input; otherwise, or when the chain no longer type-checks, the answer is inconclusive (exit 2), never a false alarm.",
      "DESIGN.md 6/C05, 7")
claim("C06",
      "Per level and version, complete domains: score = float64(k)/10 with 0<=k<=100, FormatFloat prints at most one decimal, Severity() is the band of the same level's score (v2 environmental: vectors with a negative specification equation exempt, as the property says); severity() kernels over every float64 bit pattern in FloatingPoint theory; report score fields (C17 harnesses).",
      "v3 environmental level rides on the C03 cubes.",
      "DESIGN.md 6/C06")
claim("C07",
      "Three layers on the real v3 decoders: (A) one decodeOne step from an arbitrary representation-invariant state on an arbitrary token string equals the reference step (true forall over strings and 64-bit field values); (B) whole Decode over a finite 115-token alphabet and 13 prefixes for every sequence of up to 3-4 tokens (6 in thorough) and (B') over two arbitrary '/'-free strings, against the reference fold; (E) every canonical vector with symbolic values and one classified edit (all transpositions, all single omissions, insertion of junk/duplicate/foreign tokens at every position, unknown value at every position, 13 prefixes). (V) a complete canonical base vector whose version text is an arbitrary string without '/' and ':' is accepted by the three decoders exactly for 3.0 and 3.1 (strconv.Atoi, if the code uses it, is modelled exactly through str.to_int).",
      "Whole-vector claims for arbitrary long token sequences follow from A + B by the two-line induction in DESIGN.md 5; sequences longer than the bounds that are not a single-step defect are outside the claim.",
      "DESIGN.md 5, 6/C07")
claim("C08",
      "Same three layers for the v2 decoders (no prefix, canonical order enforced by comparing with the re-encoding, all-or-nothing groups): step lemmas (A), whole Decode for every sequence of up to 3 alphabet tokens (4 thorough) and two arbitrary strings (B, B'), and every canonical vector of the four group patterns with one classified edit (E; environmental-level swap/omit/insert edits in the thorough tier).",
      "As C07.",
      "DESIGN.md 5, 6/C08")
claim("C09",
      "Fields after an accepted decode equal the written values: step lemmas (A) give field := code(value) and nothing else changes; edit harnesses prove it for every transposition of the canonical order and every omission (omitted = Not Defined, X = omitted), C13 harness proves X = omitted for scores; v2 group emptiness flags.",
      "Arbitrary permutations follow from transpositions and the commutation of steps on different names (A).",
      "DESIGN.md 6/C09")
claim("C10",
      "Encode/String of every accepted vector of the edit harnesses equals the canonical string built by the oracle (v3: specification order, X spelled out; v2: byte-identical to the input), the encoding is accepted again, fields and re-encoding are equal (scores too at base / temporal level).",
      "Environmental-level score equality after round trip follows from field equality.",
      "DESIGN.md 6/C10")
claim("C11",
      "Every error of layers A, B, B', E matches exactly one sentinel (the 11 sentinels are checked one by one through errors.Is on the symbolic match set) and the sentinel is allowed by the set of defects present in the input; on the single-defect inputs of the edit harnesses the class is exact.",
      "errs.Wrap / errors.Is are modelled from the errs v1.3.2 source (match set = own identity + wrapped + cause).",
      "DESIGN.md 6/C11")
claim("C12",
      "No panic obligation of any harness (nil dereference, index, nil map, division, explicit panic) is satisfiable: arbitrary strings at all six decoders, nil receivers, fresh objects, arbitrary representation-invariant states, decoded objects with one field reset; object-xor-error on every Decode; error/0-score on nil, fresh and reset objects. Finding F2 (nil-receiver panic of v2 IsEmpty) was found, replayed and fixed (d688e2f).",
      "Unbounded string lengths are covered (SMT strings); token counts beyond the Layer-B bounds only through the step lemmas.",
      "DESIGN.md 6/C12, 7")
claim("C13",
      "Relational assertions on complete domains: temporal with all Not Defined equals base (v2, v3), temporal <= base, v3 environmental with all eleven metrics X or omitted equals temporal unless v3.1 and scope changed, v2 environmental group all Not Defined equals temporal, v2 environmental with TD:N is 0 for every canonical environmental vector (VH_C13_v2_td_none, through Score() of a decoded object); the temporal / base comparisons are also made through an environmental object whose environmental score was queried first.",
      "", "DESIGN.md 6/C13")
claim("C14",
      "Accessors return the embedded objects (pointer identity in the heap model, nil-safe); for every canonical environmental vector the scores, severities and encodings seen through higher-level objects equal those of independent lower-level decodes; the higher-level decodeOne acts on the embedded object exactly as the lower-level step (both equal the same reference step, Layer A); the comparisons hold whether or not the environmental score was queried first, and a decoder object that accepts a second vector returns what a fresh decoder returns (conditional: the pinned decoders reject every reuse).",
      "", "DESIGN.md 6/C14, 12.1")
claim("C15",
      "Frame conditions over the symbolic heap: every query, report construction and export leaves every pre-existing heap cell (object fields, names maps, package-level tables) unchanged for every input in the bounds; Decode writes only to objects it allocates; constructors share nothing; GetX results do not depend on the map iteration order (symbolic permutation, C20 harnesses). One arbitrary step from an arbitrary state covers histories of any length. A frame difference is a candidate only: it is replayed natively and counts if it is observable through the exported API. History freedom is also stated observationally: two-history harnesses (v2, v3, reports) run the same second vector with and without an arbitrary first vector / report / failed decode and require equal observations (this is what decides caches and memo tables, which frames would wrongly flag when correct and cannot see across objects when wrong); decoder objects that are used twice are covered by conditional reuse harnesses.",
      "Determinism additionally relies on the engine's result terms mentioning only receiver state, arguments and init-time tables. sync.Map / sync.Once / mutexes are given their sequential meaning.",
      "DESIGN.md 6/C15, 12.1")
claim("C16",
      "Non-interference argument discharged with the solver (no schedule exploration): empty write sets on shared locations for every operation class and input within bounds (the C15 frame obligations), plus a static SSA scan for goroutines, sync primitives and stores to package-level variables outside initialisers; Bernstein's conditions then give race freedom and equality with sequential use. A candidate write that is not observable sequentially is replayed concurrently (8 goroutines released together x 25 runs, up to 6 process starts) under the Go race detector and reported if it races. Synchronised shared state is inside the argument only in two forms: sync.Map on scalar payloads, and sync.Once.Do on a package-level Once whose initialised variables are accessed only after a dominating Do (SSA dominator check); mutexes, atomics and goroutine starts in the library make the check inconclusive.",
      "Library internals (fmt, text/template, errs, x/text) trusted to be goroutine-safe; the Go memory model itself is trusted. The concurrent replay is a dynamic confirmation of solver-found candidates, not an exploration of schedules.",
      "DESIGN.md 6/C16", category="other")
claim("C17",
      "For every canonical vector of each level (values symbolic) and every language tag (English, Japanese, any other): each of the ~110 report fields equals the names function / metric query of the metric it is named after, evaluated on the same object; version, vector, score renderings and severities per level incl. shadowing through the embedded reports; default language = English.",
      "Relational (the names tables themselves are C18's subject).",
      "DESIGN.md 6/C17")
claim("C18",
      "For each of the 23 value-name functions, 26 titles and 6 headers: every 64-bit value (two independent ones for distinctness) and every language tag: non-empty English and Japanese names for defined values, distinct names for distinct values, Modified = base names, Unknown / Japanese equivalent out of range, English for any other tag.",
      "language.Tag is an abstract sort with distinct constants for the x/text globals.",
      "DESIGN.md 6/C18")
claim("C19",
      "ExportWithString / ExportWith of the three report types with an arbitrary template text, an abstract reader (any content, failing or not, any partial read) and nil reports: output is exactly execOut(text, report) iff parse and execute succeed, otherwise (nil, error) with exactly the invalid-template (resp. null-pointer) sentinel; nothing of a partial execution or partial read is returned.",
      "Relative to text/template, which is an uninterpreted function of (template text, data identity); whether text/template itself can panic is outside.",
      "DESIGN.md 6/C19")
claim("C20",
      "For each of the 22 v3 and 14 v2 metric types: every string (SMT string theory) parses to the table value or unknown, every 64-bit integer prints as its code or empty text, parse/print are inverse on codes, the validity predicate separates unknown from defined values, weights are bit-equal to the nearest double of the specification's decimals (both scopes for PR/MPR, base fallback for Modified metrics), all under a symbolic permutation of the code map's iteration order; version label parsers/printers likewise.",
      "Tables transcribed in tools/spec_tables.py.",
      "DESIGN.md 6/C20")
