claim("C01",
      "Bounded symbolic model checking, complete over the finite domain: all 2 x 2,592 canonical v3 base vectors are decoded by the real Base.Decode and scored by the real Base.Score under symbolic metric choices; the solver proves that no choice makes the score differ from the exact-rational FIRST equations (v3.0 ceiling rule / v3.1 Appendix-A rule) or violates the zero-iff-no-impact rule.",
      "Token order independence is delegated to C09; floats are ITE-lifted constants folded by the host FPU (DESIGN.md D-float).",
      "DESIGN.md 6/C01")
