#!/bin/bash
# runs every check of the manifest in the given tier, sequentially; summary to stdout
TIER=${1:-quick}
cd "$(dirname "$0")/.."
for p in C01 C02 C03 C04 C05 C06 C07 C08 C09 C10 C11 C12 C13 C14 C15 C16 C17 C18 C19 C20; do
  s=$(date +%s)
  timeout 3600 ./check $p --tier $TIER > .work/run-$p-$TIER.log 2>&1
  rc=$?
  e=$(date +%s)
  echo "$p rc=$rc $((e-s))s $(grep '^SUMMARY' .work/run-$p-$TIER.log | cut -c1-160)"
  grep -E '^(VIOLATION|INCONCLUSIVE|ENGINE-MISMATCH|KNOWN-FINDING)' .work/run-$p-$TIER.log | cut -c1-220 | head -5
done
