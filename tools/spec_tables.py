"""CVSS v2 / v3 metric tables transcribed from the FIRST specification documents
(v3.0/v3.1 specification section 7.4 and the vector-string section 6; v2 guide
sections 2 and 3.2.x), together with the names the library gives to the
corresponding Go identifiers (read from the repository once; a renamed
identifier makes the harness fail to compile, which the check reports as
inconclusive, never as a pass).

Each metric: (level, vector name, struct field, Go type, Get function,
unknown/invalid constant, validity predicate, [(code, Go constant, weight)],
weight kind)
  weight kind: plain | pr | mpr | mod:<base field> | scope | mscope
"""

V3 = [
    ("B", "AV", "AV", "AttackVector", "GetAttackVector", "AttackVectorUnknown", "IsUnknown",
     [("N", "AttackVectorNetwork", "0.85"), ("A", "AttackVectorAdjacent", "0.62"), ("L", "AttackVectorLocal", "0.55"), ("P", "AttackVectorPhysical", "0.2")], "plain"),
    ("B", "AC", "AC", "AttackComplexity", "GetAttackComplexity", "AttackComplexityUnknown", "IsUnknown",
     [("L", "AttackComplexityLow", "0.77"), ("H", "AttackComplexityHigh", "0.44")], "plain"),
    ("B", "PR", "PR", "PrivilegesRequired", "GetPrivilegesRequired", "PrivilegesRequiredUnknown", "IsUnknown",
     [("N", "PrivilegesRequiredNone", ("0.85", "0.85")), ("L", "PrivilegesRequiredLow", ("0.62", "0.68")), ("H", "PrivilegesRequiredHigh", ("0.27", "0.5"))], "pr"),
    ("B", "UI", "UI", "UserInteraction", "GetUserInteraction", "UserInteractionUnknown", "IsUnknown",
     [("N", "UserInteractionNone", "0.85"), ("R", "UserInteractionRequired", "0.62")], "plain"),
    ("B", "S", "S", "Scope", "GetScope", "ScopeUnknown", "IsUnknown",
     [("U", "ScopeUnchanged", None), ("C", "ScopeChanged", None)], "scope"),
    ("B", "C", "C", "ConfidentialityImpact", "GetConfidentialityImpact", "ConfidentialityImpactUnknown", "IsUnknown",
     [("H", "ConfidentialityImpactHigh", "0.56"), ("L", "ConfidentialityImpactLow", "0.22"), ("N", "ConfidentialityImpactNone", "0")], "plain"),
    ("B", "I", "I", "IntegrityImpact", "GetIntegrityImpact", "IntegrityImpactUnknown", "IsUnknown",
     [("H", "IntegrityImpactHigh", "0.56"), ("L", "IntegrityImpactLow", "0.22"), ("N", "IntegrityImpactNone", "0")], "plain"),
    ("B", "A", "A", "AvailabilityImpact", "GetAvailabilityImpact", "AvailabilityImpactUnknown", "IsUnknown",
     [("H", "AvailabilityImpactHigh", "0.56"), ("L", "AvailabilityImpactLow", "0.22"), ("N", "AvailabilityImpactNone", "0")], "plain"),
    ("T", "E", "E", "Exploitability", "GetExploitability", "ExploitabilityInvalid", "IsValid",
     [("X", "ExploitabilityNotDefined", "1"), ("H", "ExploitabilityHigh", "1"), ("F", "ExploitabilityFunctional", "0.97"), ("P", "ExploitabilityProofOfConcept", "0.94"), ("U", "ExploitabilityUnproven", "0.91")], "plain"),
    ("T", "RL", "RL", "RemediationLevel", "GetRemediationLevel", "RemediationLevelInvalid", "IsValid",
     [("X", "RemediationLevelNotDefined", "1"), ("U", "RemediationLevelUnavailable", "1"), ("W", "RemediationLevelWorkaround", "0.97"), ("T", "RemediationLevelTemporaryFix", "0.96"), ("O", "RemediationLevelOfficialFix", "0.95")], "plain"),
    ("T", "RC", "RC", "ReportConfidence", "GetReportConfidence", "ReportConfidenceInvalid", "IsValid",
     [("X", "ReportConfidenceNotDefined", "1"), ("C", "ReportConfidenceConfirmed", "1"), ("R", "ReportConfidenceReasonable", "0.96"), ("U", "ReportConfidenceUnknown", "0.92")], "plain"),
    ("E", "CR", "CR", "ConfidentialityRequirement", "GetConfidentialityRequirement", "ConfidentialityRequirementInvalid", "IsValid",
     [("X", "ConfidentialityRequirementNotDefined", "1"), ("H", "ConfidentialityRequirementHigh", "1.5"), ("M", "ConfidentialityRequirementMedium", "1"), ("L", "ConfidentialityRequirementLow", "0.5")], "plain"),
    ("E", "IR", "IR", "IntegrityRequirement", "GetIntegrityRequirement", "IntegrityRequirementInvalid", "IsValid",
     [("X", "IntegrityRequirementNotDefined", "1"), ("H", "IntegrityRequirementHigh", "1.5"), ("M", "IntegrityRequirementMedium", "1"), ("L", "IntegrityRequirementLow", "0.5")], "plain"),
    ("E", "AR", "AR", "AvailabilityRequirement", "GetAvailabilityRequirement", "AvailabilityRequirementInvalid", "IsValid",
     [("X", "AvailabilityRequirementNotDefined", "1"), ("H", "AvailabilityRequirementHigh", "1.5"), ("M", "AvailabilityRequirementMedium", "1"), ("L", "AvailabilityRequirementLow", "0.5")], "plain"),
    ("E", "MAV", "MAV", "ModifiedAttackVector", "GetModifiedAttackVector", "ModifiedAttackVectorInvalid", "IsValid",
     [("X", "ModifiedAttackVectorNotDefined", None), ("N", "ModifiedAttackVectorNetwork", "0.85"), ("A", "ModifiedAttackVectorAdjacent", "0.62"), ("L", "ModifiedAttackVectorLocal", "0.55"), ("P", "ModifiedAttackVectorPhysical", "0.2")], "mod:AV"),
    ("E", "MAC", "MAC", "ModifiedAttackComplexity", "GetModifiedAttackComplexity", "ModifiedAttackComplexityInvalid", "IsValid",
     [("X", "ModifiedAttackComplexityNotDefined", None), ("L", "ModifiedAttackComplexityLow", "0.77"), ("H", "ModifiedAttackComplexityHigh", "0.44")], "mod:AC"),
    ("E", "MPR", "MPR", "ModifiedPrivilegesRequired", "GetModifiedPrivilegesRequired", "ModifiedPrivilegesRequiredInvalid", "IsValid",
     [("X", "ModifiedPrivilegesRequiredNotDefined", None), ("N", "ModifiedPrivilegesRequiredNone", ("0.85", "0.85")), ("L", "ModifiedPrivilegesRequiredLow", ("0.62", "0.68")), ("H", "ModifiedPrivilegesRequiredHigh", ("0.27", "0.5"))], "mpr"),
    ("E", "MUI", "MUI", "ModifiedUserInteraction", "GetModifiedUserInteraction", "ModifiedUserInteractionInvalid", "IsValid",
     [("X", "ModifiedUserInteractionNotDefined", None), ("N", "ModifiedUserInteractionNone", "0.85"), ("R", "ModifiedUserInteractionRequired", "0.62")], "mod:UI"),
    ("E", "MS", "MS", "ModifiedScope", "GetModifiedScope", "ModifiedScopeInvalid", "IsValid",
     [("X", "ModifiedScopeNotDefined", None), ("U", "ModifiedScopeUnchanged", None), ("C", "ModifiedScopeChanged", None)], "mscope"),
    ("E", "MC", "MC", "ModifiedConfidentialityImpact", "GetModifiedConfidentialityImpact", "ModifiedConfidentialityImpactInvalid", "IsValid",
     [("X", "ModifiedConfidentialityImpactNotDefined", None), ("H", "ModifiedConfidentialityImpactHigh", "0.56"), ("L", "ModifiedConfidentialityImpactLow", "0.22"), ("N", "ModifiedConfidentialityImpactNone", "0")], "mod:C"),
    ("E", "MI", "MI", "ModifiedIntegrityImpact", "GetModifiedIntegrityImpact", "ModifiedIntegrityImpactInvalid", "IsValid",
     [("X", "ModifiedIntegrityImpactNotDefined", None), ("H", "ModifiedIntegrityImpactHigh", "0.56"), ("L", "ModifiedIntegrityImpactLow", "0.22"), ("N", "ModifiedIntegrityImpactNone", "0")], "mod:I"),
    ("E", "MA", "MA", "ModifiedAvailabilityImpact", "GetModifiedAvailabilityImpact", "ModifiedAvailabilityInvalid", "IsValid",
     [("X", "ModifiedAvailabilityImpactNotDefined", None), ("H", "ModifiedAvailabilityImpactHigh", "0.56"), ("L", "ModifiedAvailabilityImpactLow", "0.22"), ("N", "ModifiedAvailabilityImpactNone", "0")], "mod:A"),
]

# v2: IsUnknown() of the base metrics returns "is NOT unknown" in the library (the name is
# misleading); the harness only uses the separation property, see gen_harness.
V2 = [
    ("B", "AV", "AV", "AccessVector", "GetAccessVector", "AccessVectorUnknown", "IsUnknown",
     [("L", "AccessVectorLocal", "0.395"), ("A", "AccessVectorAdjacent", "0.646"), ("N", "AccessVectorNetwork", "1")], "plain"),
    ("B", "AC", "AC", "AccessComplexity", "GetAccessComplexity", "AccessComplexityUnknown", "IsUnknown",
     [("H", "AccessComplexityHigh", "0.35"), ("M", "AccessComplexityMedium", "0.61"), ("L", "AccessComplexityLow", "0.71")], "plain"),
    ("B", "Au", "Au", "Authentication", "GetAuthentication", "AuthenticationUnknown", "IsUnknown",
     [("M", "AuthenticationMultiple", "0.45"), ("S", "AuthenticationSingle", "0.56"), ("N", "AuthenticationNone", "0.704")], "plain"),
    ("B", "C", "C", "ConfidentialityImpact", "GetConfidentialityImpact", "ConfidentialityImpactUnknown", "IsUnknown",
     [("N", "ConfidentialityImpactNone", "0"), ("P", "ConfidentialityImpactPartial", "0.275"), ("C", "ConfidentialityImpactComplete", "0.66")], "plain"),
    ("B", "I", "I", "IntegrityImpact", "GetIntegrityImpact", "IntegrityImpactUnknown", "IsUnknown",
     [("N", "IntegrityImpactNone", "0"), ("P", "IntegrityImpactPartial", "0.275"), ("C", "IntegrityImpactComplete", "0.66")], "plain"),
    ("B", "A", "A", "AvailabilityImpact", "GetAvailabilityImpact", "AvailabilityImpactUnknown", "IsUnknown",
     [("N", "AvailabilityImpactNone", "0"), ("P", "AvailabilityImpactPartial", "0.275"), ("C", "AvailabilityImpactComplete", "0.66")], "plain"),
    ("T", "E", "E", "Exploitability", "GetExploitability", "ExploitabilityInvalid", "IsValid",
     [("ND", "ExploitabilityNotDefined", "1"), ("U", "ExploitabilityUnproven", "0.85"), ("POC", "ExploitabilityProofOfConcept", "0.9"), ("F", "ExploitabilityFunctional", "0.95"), ("H", "ExploitabilityHigh", "1")], "plain"),
    ("T", "RL", "RL", "RemediationLevel", "GetRemediationLevel", "RemediationLevelInvalid", "IsValid",
     [("ND", "RemediationLevelNotDefined", "1"), ("OF", "RemediationLevelOfficialFix", "0.87"), ("TF", "RemediationLevelTemporaryFix", "0.9"), ("W", "RemediationLevelWorkaround", "0.95"), ("U", "RemediationLevelUnavailable", "1")], "plain"),
    ("T", "RC", "RC", "ReportConfidence", "GetReportConfidence", "ReportConfidenceInvalid", "IsValid",
     [("ND", "ReportConfidenceNotDefined", "1"), ("UC", "ReportConfidenceUnconfirmed", "0.9"), ("UR", "ReportConfidenceUncorroborated", "0.95"), ("C", "ReportConfidenceConfirmed", "1")], "plain"),
    ("E", "CDP", "CDP", "CollateralDamagePotential", "GetCollateralDamagePotential", "CollateralDamagePotentialInvalid", "IsValid",
     [("ND", "CollateralDamagePotentialNotDefined", "0"), ("N", "CollateralDamagePotentialNon", "0"), ("L", "CollateralDamagePotentialLow", "0.1"), ("LM", "CollateralDamagePotentialLowMedium", "0.3"), ("MH", "CollateralDamagePotentialMediumHigh", "0.4"), ("H", "CollateralDamagePotentialHigh", "0.5")], "plain"),
    ("E", "TD", "TD", "TargetDistribution", "GetTargetDistribution", "TargetDistributionInvalid", "IsValid",
     [("ND", "TargetDistributionNotDefined", "1"), ("N", "TargetDistributionNon", "0"), ("L", "TargetDistributionLow", "0.25"), ("M", "TargetDistributionMedium", "0.75"), ("H", "TargetDistributionHigh", "1")], "plain"),
    ("E", "CR", "CR", "ConfidentialityRequirement", "GetConfidentialityRequirement", "ConfidentialityRequirementInvalid", "IsValid",
     [("ND", "ConfidentialityRequirementNotDefined", "1"), ("L", "ConfidentialityRequirementLow", "0.5"), ("M", "ConfidentialityRequirementMedium", "1"), ("H", "ConfidentialityRequirementHigh", "1.51")], "plain"),
    ("E", "IR", "IR", "IntegrityRequirement", "GetIntegrityRequirement", "IntegrityRequirementInvalid", "IsValid",
     [("ND", "IntegrityRequirementNotDefined", "1"), ("L", "IntegrityRequirementLow", "0.5"), ("M", "IntegrityRequirementMedium", "1"), ("H", "IntegrityRequirementHigh", "1.51")], "plain"),
    ("E", "AR", "AR", "AvailabilityRequirement", "GetAvailabilityRequirement", "AvailabilityRequirementInvalid", "IsValid",
     [("ND", "AvailabilityRequirementNotDefined", "1"), ("L", "AvailabilityRequirementLow", "0.5"), ("M", "AvailabilityRequirementMedium", "1"), ("H", "AvailabilityRequirementHigh", "1.51")], "plain"),
]
