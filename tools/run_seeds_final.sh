#!/bin/bash
# final pass: the seeded changes whose relevant checks changed after the first pass (all others keep their results)
cd /verif
run() { d=$1; shift; timeout 3000 tools/run_seed.sh seeded/$d "$@"; }
run S37-C16-names-fallback-memo C16 C15
run S29-C17-shared-default-options C15 C17
run S14-C16-template-cache-race C16
run S36-C18-prefix-language-match C18
run S31-C13-v2-subscore-cache-aliased C13 C14
run S32-C14-v3-env-reset-skips-temporal C14
run S03-C05-double-rounding-outer C05
run S39-C05-v2-adjusted-base-clamp C05
run S30-C06-v2-env-cdp-nd-unrounded C05
run S13-C13-v30-polynomial-factor C13
run S19-C14-v2-accessors-nil-without-temporal C14
run S02-C01-order-dependent-pr-cache C01
run S20-C15-version-blind-memo C15
run S27-C15-v2-encode-compacts-shared-order C15
run S25-C07-v3-extra-colon-ignored C07
run S04-C07-temporal-x-not-recorded C07
run S07-C11-base-dup-as-notsupport C11
run S24-C11-v2-cut-extra-colon C11
run S21-C08-v2-temporal-isempty-isdefined C08
run S05-C08-isempty-isdefined C08
run S22-C09-v2-group-empty-by-value C09
run S08-C09-ms-x-normalised C09
run S26-C12-v2-isempty-hides-invalid C12
# benign
TIER=quick tools/run_seed.sh benign/B05 C13 C05
TIER=quick tools/run_seed.sh benign/B09 C19
TIER=quick tools/run_seed.sh benign/B06 C16 C19
TIER=quick tools/run_seed.sh benign/B07 C18
