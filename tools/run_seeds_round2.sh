#!/bin/bash
cd /verif
run() { d=$1; shift; timeout 3000 tools/run_seed.sh seeded/$d "$@"; }
run S33-C01-roundup-coarse-scale C01 C06
run S40-C02-min10-after-temporal C02
run S34-C03-env-fastpath-unmodified C03 C13
run S38-C04-v2-temporal-floor C04
run S39-C05-v2-adjusted-base-clamp C05
run S30-C06-v2-env-cdp-nd-unrounded C06 C05
run S35-C20-mi-none-as-notdefined C20
run S36-C18-prefix-language-match C18
run S37-C16-names-fallback-memo C16 C15
run S29-C17-shared-default-options C17 C15 C16
run S28-C19-typed-nil-report C19 C12
run S31-C13-v2-subscore-cache-aliased C13 C15
run S32-C14-v3-env-reset-skips-temporal C14 C15
run S27-C15-v2-encode-compacts-shared-order C15
run S26-C12-v2-isempty-hides-invalid C12
run S23-C10-v3-temporal-encode-weight-empty C10
run S25-C07-v3-extra-colon-ignored C07
run S24-C11-v2-cut-extra-colon C11
run S22-C09-v2-group-empty-by-value C09
run S21-C08-v2-temporal-isempty-isdefined C08
