#!/bin/bash
cd /verif
run() { d=$1; shift; tools/run_seed.sh seeded/$d "$@"; }
run S09-C02-v30-temporal-ceil C02
run S10-C04-fimpact-clamp C04
run S15-C17-report-severity-strict C17
run S16-C18-msvalueof-unknown C18
run S17-C19-reader-eof-chunk C19
run S18-C20-mpr-fallback-scope C20
run S19-C14-v2-accessors-nil-without-temporal C14
run S14-C16-template-cache-race C16 C15
run S20-C15-version-blind-memo C15
run S11-C06-roundup-unsnapped C06
run S12-C12-geterror-forgets-ma C12
run S13-C13-v30-polynomial-factor C13 C03
run S03-C05-double-rounding-outer C05
run S01-C03-mpr-scope C03
run S02-C01-order-dependent-pr-cache C01 C09
run S04-C07-temporal-x-not-recorded C07
run S08-C09-ms-x-normalised C09
run S06-C10-encode-lone-ms C10
run S07-C11-base-dup-as-notsupport C11
run S05-C08-isempty-isdefined C08
