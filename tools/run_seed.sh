#!/bin/bash
# usage: run_seed.sh <seed-dir> <prop> [<prop> ...]
# Applies the seeded change to /repo, runs the quick checks of the given properties, reverts.
SD=$(realpath $1); shift
cd /verif
git -C /repo diff --quiet || { echo "/repo is dirty"; exit 2; }
git -C /repo apply $SD/patch.diff || exit 2
trap 'git -C /repo checkout -- .' EXIT
mkdir -p .work/seeds
for p in "$@"; do
  log=.work/seeds/$(basename $SD)-$p.log
  s=$(date +%s)
  timeout 3000 ./check $p --tier ${TIER:-quick} > $log 2>&1
  rc=$?
  e=$(date +%s)
  echo "$(basename $SD) $p rc=$rc $((e-s))s $(grep -c '^VIOLATION' $log) violation lines; $(grep '^SUMMARY' $log | cut -c1-140)"
  grep -E '^(VIOLATION|INCONCLUSIVE|ENGINE-MISMATCH)' $log | cut -c1-200 | head -3
done
