#!/usr/bin/env python3
"""Collects .work/seeds/<seed>-<prop>.log into seeded/<seed>/meta.json (detected_by) and prints the
markdown table for DESIGN.md section 14."""
import json, os, re, glob
HERE = os.path.dirname(os.path.dirname(os.path.abspath(__file__)))
rows = []
for d in sorted(glob.glob(os.path.join(HERE, "seeded", "S*"))):
    sid = os.path.basename(d)
    mp = os.path.join(d, "meta.json")
    meta = json.load(open(mp))
    det = []
    for log in sorted(glob.glob(os.path.join(HERE, ".work", "seeds", sid + "-*.log"))):
        prop = log.rsplit("-", 1)[1][:-4]
        txt = open(log).read()
        viol = re.findall(r"^VIOLATION property=(\S+) replay=(\S+)", txt, re.M)
        inconc = len(re.findall(r"^(INCONCLUSIVE|ENGINE-MISMATCH)", txt, re.M))
        harn = sorted(set(re.findall(r"replays/\w+/(?:\w+?)-(VH_[A-Za-z0-9_]+)-\d+", " ".join(v[1] for v in viol))))
        summ = re.search(r"^SUMMARY.*$", txt, re.M)
        det.append({"check": prop, "violation_lines": len(viol), "inconclusive_lines": inconc, "harnesses": harn,
                    "verdict": "VIOLATION (exit 1)" if viol else ("inconclusive (exit 2)" if inconc else "not detected (exit 0)"),
                    "summary": summ.group(0)[:160] if summ else ""})
    if "first_run" not in meta:
        # the result of the checks as they were when the change was first tried (before any strengthening)
        meta["first_run"] = det
    meta["detected_by"] = det
    meta["ran"] = "tools/run_seed.sh: git -C /repo apply patch.diff; ./check <prop> --tier quick; git -C /repo checkout -- ."
    json.dump(meta, open(mp, "w"), indent=1)
    fmt = lambda dd: "; ".join("%s: %s%s" % (x["check"], x["verdict"].split(" (")[0], (" via " + ", ".join(x.get("harnesses", [])[:3])) if x.get("harnesses") else "") for x in dd) or "(not run yet)"
    v = fmt(det)
    f = fmt(meta["first_run"])
    rows.append("| %s | %s | %s | %s | %s |" % (sid, meta["breaks_property"], meta["needs_to_manifest"][:150], f if f != v else "=", v))
print("| seed | property | needs | first run | final checks |\n|---|---|---|---|---|")
print("\n".join(rows))
