#!/usr/bin/env python3
"""Regenerates /verif/MANIFEST.json from the table below (kept in one place so
that claimed / not_applicable stay consistent)."""
import json, os
HERE = os.path.dirname(os.path.dirname(os.path.abspath(__file__)))
props = [json.loads(l) for l in open(os.path.join(HERE, "properties.jsonl"))]
ids = [p["id"] for p in props]

TECH = "bounded symbolic execution of the real Go code (go/ssa -> SMT-LIB2), decided by z3 5.1 and cvc5 1.0; counterexamples replayed natively"
TB = ("Trusted: go/ssa, the symgo encoder and its environment models (DESIGN.md 4.6), z3/cvc5 (dual discharge), "
      "native folding of lifted float constants, the FIRST tables transcribed in harness/*/spec*.go. ")

claimed = {}
def claim(pid, text, note, design, thorough=True, category="model_checking", technique=TECH):
    claimed[pid] = dict(text=text, note=TB + note, design=design, thorough=thorough, category=category, technique=technique)

exec(open(os.path.join(HERE, "tools", "claims.py")).read())

na_default = "check not built yet in this session (work in progress; see DESIGN.md section 6 for the planned encoding)"
NA = {}
if os.path.exists(os.path.join(HERE, "tools", "na.json")):
    NA = json.load(open(os.path.join(HERE, "tools", "na.json")))

checks = []
for pid in ids:
    if pid not in claimed:
        continue
    c = claimed[pid]
    e = {
        "property_id": pid,
        "quick_cmd": f"./check {pid} --tier quick",
        "evidence_file": f"/verif/evidence/{pid}.json",
        "replay_cmd_template": f"./check {pid} --replay {{path}}",
        "engine": "symgo",
        "level_claimed": {"category": c["category"], "text": c["text"], "design_ref": c["design"]},
        "level_note": c["note"],
        "technique": c["technique"],
    }
    if c["thorough"]:
        e["thorough_cmd"] = f"./check {pid} --tier thorough"
    checks.append(e)

man = {
    "version": 1,
    "setup_cmd": "cd /verif/engine && GOFLAGS=-mod=mod GOPROXY=off GOSUMDB=off GOTOOLCHAIN=local go build -o ../bin/symgo . && cd /verif && ./bin/symgo selftest",
    "hooks": {
        "guard": "verif",
        "enable": "no source hooks: harnesses are injected with go/packages Overlay (symbolic run) and go test -overlay (native replay); the tag is reserved and unused",
        "baseline_off_cmd": "cd /repo && go test -vet=off -count=1 ./...",
        "source_commits": [],
        "add_only": True,
    },
    "engines": [{
        "name": "symgo", "path": "/verif/engine",
        "serves_properties": sorted(claimed.keys()),
        "kind_free_text": "symbolic executor for go/ssa written for this task: merged (guarded) execution, ITE-lifted constants folded natively, SMT-LIB2 emission, persistent z3/cvc5 processes, native replay through go test -overlay",
    }],
    "checks": checks,
    "not_applicable": [{"property_id": pid, "reason": NA.get(pid, na_default)} for pid in ids if pid not in claimed],
    "notes": "All checks: exit 0 = every registered obligation discharged by the solvers (known findings re-confirmed and printed); exit 1 + VIOLATION line = replayed counterexample; exit 2 = inconclusive (never on the unchanged tree). See DESIGN.md.",
}
json.dump(man, open(os.path.join(HERE, "MANIFEST.json"), "w"), indent=1)
print("claimed:", sorted(claimed.keys()))
print("not_applicable:", [x["property_id"] for x in man["not_applicable"]])
