#!/bin/bash
# usage: confirm_seed.sh <seed-id> <worktree> <seed-dir> <pkg (e.g. v3/metric)>
# Confirms in a scratch worktree: builds, full test suite passes with the change, demo fails with / passes without.
ID=$1; WT=$2; SD=$3; PKG=$4
export GOFLAGS=-mod=mod GOPROXY=off GOSUMDB=off GOTOOLCHAIN=local
cd $WT || exit 2
git checkout -q -- . ; git clean -fdq
git apply --check $SD/patch.diff || { echo "$ID: patch does not apply"; exit 1; }
if git apply --numstat $SD/patch.diff | awk '{print $3}' | grep -q "_test.go"; then echo "$ID: patch touches test files"; exit 1; fi
git apply $SD/patch.diff
go build ./... || { echo "$ID: build fails"; exit 1; }
if ! go test -vet=off -count=1 ./... > /tmp/confirm-$ID-suite.log 2>&1; then echo "$ID: existing suite FAILS with the change"; tail -5 /tmp/confirm-$ID-suite.log; git checkout -q -- .; exit 1; fi
cp $SD/demo_test.go $PKG/zz_seed_demo_test.go
go test -vet=off -count=1 -run TestSeedDemo ./$PKG > /tmp/confirm-$ID-with.log 2>&1; with=$?
git stash -q
cp $SD/demo_test.go $PKG/zz_seed_demo_test.go 2>/dev/null
go test -vet=off -count=1 -run TestSeedDemo ./$PKG > /tmp/confirm-$ID-without.log 2>&1; without=$?
rm -f $PKG/zz_seed_demo_test.go
git stash pop -q
rm -f $PKG/zz_seed_demo_test.go
echo "$ID: suite ok with change; demo with change exit=$with (want != 0); without exit=$without (want 0)"
[ $with -ne 0 ] && [ $without -eq 0 ]
