#!/bin/bash
# usage: runsome.sh <tier> <prop>...   (like runall.sh for the given properties)
TIER=$1; shift
cd "$(dirname "$0")/.."
for p in "$@"; do
  s=$(date +%s)
  timeout 5400 ./check $p --tier $TIER > .work/run-$p-$TIER.log 2>&1
  rc=$?
  e=$(date +%s)
  echo "$p rc=$rc $((e-s))s $(grep '^SUMMARY' .work/run-$p-$TIER.log | cut -c1-160)"
  grep -E '^(VIOLATION|INCONCLUSIVE|ENGINE-MISMATCH|KNOWN-FINDING)' .work/run-$p-$TIER.log | cut -c1-220 | head -5
done
