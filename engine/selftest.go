package main

// Translator validation (DESIGN 4.10): every vector-like string literal of the repository's own
// _test.go files plus seeded random mutations of them is pushed through (a) the encoding, executed
// with all inputs fixed (the engine as a concrete interpreter of the SSA and of its environment
// models) and (b) the real library (native go test with the same harness); all observations
// (acceptance, error class, fields, encodings, scores, severities, report fields) must agree.

import (
	"encoding/json"
	"fmt"
	"math/rand"
	"os"
	"os/exec"
	"path/filepath"
	"regexp"
	"sort"
	"strings"
)

func collectVectors(repo string, seed int64) []string {
	re := regexp.MustCompile("\"((?:CVSS:[0-9.]*/)?[A-Za-z]{1,3}:[A-Za-z]{1,3}(?:/[A-Za-z]{0,3}:?[A-Za-z]{0,3})*/?)\"")
	set := map[string]bool{}
	filepath.Walk(repo, func(p string, info os.FileInfo, err error) error {
		if err != nil || info.IsDir() || !strings.HasSuffix(p, "_test.go") {
			return nil
		}
		b, _ := os.ReadFile(p)
		for _, m := range re.FindAllStringSubmatch(string(b), -1) {
			set[m[1]] = true
		}
		return nil
	})
	var vs []string
	for v := range set {
		vs = append(vs, v)
	}
	sort.Strings(vs)
	// seeded mutations: drop / duplicate / swap tokens, change a character
	rng := rand.New(rand.NewSource(seed))
	n := len(vs)
	for i := 0; i < 300 && n > 0; i++ {
		v := vs[rng.Intn(n)]
		toks := strings.Split(v, "/")
		switch rng.Intn(5) {
		case 0:
			if len(toks) > 1 {
				k := rng.Intn(len(toks))
				toks = append(toks[:k:k], toks[k+1:]...)
			}
		case 1:
			k := rng.Intn(len(toks))
			toks = append(toks, toks[k])
		case 2:
			a, b := rng.Intn(len(toks)), rng.Intn(len(toks))
			toks[a], toks[b] = toks[b], toks[a]
		case 3:
			k := rng.Intn(len(toks))
			if len(toks[k]) > 0 {
				bs := []byte(toks[k])
				bs[rng.Intn(len(bs))] = "NLHXCUPAR:Q/ "[rng.Intn(13)]
				toks[k] = string(bs)
			}
		case 4:
			toks = append(toks, []string{"E:F", "RL:X", "MS:C", "CR:H", "TD:L", "CDP:ND", "", "ZZ:1"}[rng.Intn(8)])
		}
		set2 := strings.Join(toks, "/")
		if !set[set2] {
			set[set2] = true
			vs = append(vs, set2)
		}
	}
	return vs
}

func cmdSelftestTranslator(repo, vdir string, seed int64) bool {
	hdir := filepath.Join(vdir, "harness")
	w := loadWorld(repo, hdir)
	vecs := collectVectors(repo, seed)
	type target struct{ pkg, fn string }
	targets := []target{{"v3/metric", "VH_ST_v3"}, {"v2/metric", "VH_ST_v2"}, {"v3/report", "VH_ST_report"}}
	workdir := filepath.Join(vdir, ".work", "selftest")
	ovp := w.writeReplayTestFiles(workdir)
	bad := 0
	total := 0
	nobs := 0
	for _, tg := range targets {
		fn := w.findFunc(tg.pkg, tg.fn)
		if fn == nil {
			fmt.Printf("selftest: harness %s.%s not found\n", tg.pkg, tg.fn)
			return false
		}
		// engine side
		eng := map[string][]string{}
		for _, v := range vecs {
			func() {
				defer func() {
					if r := recover(); r != nil {
						eng[v] = []string{fmt.Sprintf("ENGINE-ERROR %v", r)}
					}
				}()
				ex := w.newExecWithInit()
				ex.fixedStr = map[string]string{"vec": v}
				ex.callFunction(fn, nil, nil, True)
				var out []string
				for _, o := range ex.observes {
					if !o.G.IsTrue() && !o.G.IsFalse() {
						out = append(out, o.Label+"=<symbolic guard>")
						continue
					}
					if o.G.IsFalse() {
						continue
					}
					out = append(out, o.Label+"="+renderObserved(o.V))
				}
				if len(ex.panics) > 0 {
					for _, p := range ex.panics {
						if p.G.IsTrue() {
							out = append(out, "PANIC")
						}
					}
				}
				eng[v] = out
			}()
		}
		// native side: one go test run over all vectors
		listPath := filepath.Join(workdir, "vectors.json")
		b, _ := json.Marshal(map[string]interface{}{"values": map[string]interface{}{}, "vectors": vecs})
		os.WriteFile(listPath, b, 0o644)
		outPath := filepath.Join(workdir, "native-"+tg.fn+".txt")
		os.Remove(outPath)
		cmd := exec.Command("go", "test", "-vet=off", "-count=1", "-overlay", ovp, "-run", "^TestVerifReplay$", "./"+tg.pkg)
		cmd.Dir = w.repo
		cmd.Env = append(os.Environ(), "GOFLAGS=-mod=mod", "GOPROXY=off", "GOSUMDB=off", "GOTOOLCHAIN=local",
			"VRT_MODEL="+listPath, "VRT_HARNESS="+tg.fn, "VRT_SELFTEST="+outPath)
		if out, err := cmd.CombinedOutput(); err != nil {
			fmt.Printf("selftest: native run of %s failed: %v\n%s\n", tg.fn, err, lastLines(string(out), 15))
			return false
		}
		nb, _ := os.ReadFile(outPath)
		nat := map[string][]string{}
		cur := ""
		for _, l := range strings.Split(string(nb), "\n") {
			if strings.HasPrefix(l, "##VEC ") {
				var s string
				json.Unmarshal([]byte(l[6:]), &s)
				cur = s
				nat[cur] = []string{}
			} else if l != "" {
				nat[cur] = append(nat[cur], l)
			}
		}
		for _, v := range vecs {
			total++
			nobs += len(eng[v])
			a, b := strings.Join(eng[v], "|"), strings.Join(nat[v], "|")
			if a != b {
				bad++
				if bad <= 10 {
					fmt.Printf("selftest MISMATCH %s on %q\n  encoding: %s\n  native:   %s\n", tg.fn, v, a, b)
				}
			}
		}
	}
	fmt.Printf("selftest translator validation: %d vector x harness runs compared (%d vectors: every vector-like literal of the repository's tests plus seeded mutations), %d observations, %d mismatches\n", total, len(vecs), nobs, bad)
	return bad == 0
}

func renderObserved(v Value) string {
	switch x := v.(type) {
	case *Term:
		if x.op != OpConst {
			return "<symbolic>"
		}
		switch x.sort {
		case SBool:
			return fmt.Sprintf("%v", x.b)
		case SBV:
			return fmt.Sprintf("%d", x.i)
		case SStr:
			return x.s
		case SFP:
			return fmt.Sprintf("%v", x.Float())
		}
	}
	return fmt.Sprintf("<%T>", v)
}
