package main

// Symbolic values and the heap.

import (
	"fmt"
	"go/types"

	"golang.org/x/tools/go/ssa"
)

type Value interface{}

// *Term          scalar: bool, int/enum, string, float64, Rat, language.Tag
// *PtrVal        pointer / map reference: guarded set of targets
// *SliceVal      immutable slice value
// *IfaceVal      non-error interface
// *ErrVal        error interface (abstract: nil-ness + match set)
// *FuncVal       function value / closure
// TupleVal       multiple results
// *OpaqueVal     abstract library values (errs options, template handles, iterators)

type PtrTarget struct {
	G   *Term
	Obj *Object // nil: nil pointer
	Idx int     // -1: whole object
	Sub string  // path of field indices inside a struct value held by the cell ("" = the cell itself), e.g. ".2.0"
}

type PtrVal struct{ T []PtrTarget }

// StructVal: a struct held by value (in a register, a cell, a slice element or a map entry).
type StructVal struct {
	Typ types.Type
	F   []Value
}

func (s *StructVal) clone() *StructVal {
	return &StructVal{Typ: s.Typ, F: append([]Value(nil), s.F...)}
}

// subPath parses a PtrTarget.Sub path.
func subPath(sub string) []int {
	var out []int
	n, in := 0, false
	for i := 0; i <= len(sub); i++ {
		if i == len(sub) || sub[i] == '.' {
			if in {
				out = append(out, n)
			}
			n, in = 0, false
			continue
		}
		n = n*10 + int(sub[i]-'0')
		in = true
	}
	return out
}

// subGet reads the value at path inside v.
func subGet(v Value, path []int) Value {
	for _, i := range path {
		v = v.(*StructVal).F[i]
	}
	return v
}

// subSet returns v with the value at path replaced by f(old).
func subSet(v Value, path []int, f func(Value) Value) Value {
	if len(path) == 0 {
		return f(v)
	}
	s := v.(*StructVal).clone()
	s.F[path[0]] = subSet(s.F[path[0]], path[1:], f)
	return s
}

type SliceVal struct {
	Elems []Value
	Len   *Term // BV
	Nil   *Term // Bool: slice is nil (only informational)
}

// BytesVal: an abstract []byte: a view of the first N bytes of a byte-buffer object whose content
// is a string term (cells[0]).
type BytesVal struct {
	Obj *Object
	N   *Term // BV: length of the view
	Cap int
}

type IfaceVal struct {
	Nil *Term
	Typ types.Type
	V   Value
}

type ErrVal struct {
	Nil  *Term
	Bits []*Term // match set over error identities; index 0 = "foreign"
}

type FuncVal struct {
	Fn   *ssa.Function
	Bind []Value
}

type TupleVal []Value

type OpaqueVal struct {
	Nil  *Term // non-nil: the value may be a nil pointer (library handles such as *template.Template)
	Kind string
	Args []Value
	X    interface{}
}

type ObjKind int

const (
	KStruct ObjKind = iota
	KArray
	KCell
	KMap
	KBuilder // strings.Builder / bytes.Buffer: cells[0] = content string
)

type MapEntry struct {
	G   *Term
	Key Value // *Term
	Val Value
}

type Object struct {
	born    *Term // absolute guard under which the object was allocated (nil: unconditional)
	id      int
	kind    ObjKind
	typ     types.Type
	cells   []Value
	entries []MapEntry // KMap: chronological guarded updates
	name    string
	global  bool
}

func (o *Object) String() string { return fmt.Sprintf("obj%d(%s)", o.id, o.name) }

type Heap struct {
	objs []*Object
}

func (h *Heap) newObj(kind ObjKind, typ types.Type, ncells int, name string) *Object {
	o := &Object{id: len(h.objs), kind: kind, typ: typ, cells: make([]Value, ncells), name: name}
	h.objs = append(h.objs, o)
	return o
}

func nilPtr() *PtrVal { return &PtrVal{T: []PtrTarget{{G: True, Obj: nil, Idx: -1}}} }
func ptrTo(o *Object, idx int) *PtrVal {
	return &PtrVal{T: []PtrTarget{{G: True, Obj: o, Idx: idx}}}
}

func (p *PtrVal) isNilTerm() *Term {
	var gs []*Term
	for _, t := range p.T {
		if t.Obj == nil {
			gs = append(gs, t.G)
		}
	}
	return Or(gs...)
}

func normPtr(ts []PtrTarget) *PtrVal {
	type key struct {
		o   *Object
		idx int
		sub string
	}
	idx := map[key]int{}
	var out []PtrTarget
	for _, t := range ts {
		if t.G.IsFalse() {
			continue
		}
		k := key{t.Obj, t.Idx, t.Sub}
		if j, ok := idx[k]; ok {
			out[j].G = Or(out[j].G, t.G)
		} else {
			idx[k] = len(out)
			out = append(out, t)
		}
	}
	if len(out) == 0 {
		return nilPtr()
	}
	if len(out) == 1 {
		out[0].G = True
	}
	return &PtrVal{T: out}
}

func ptrEq(a, b *PtrVal) *Term {
	var ds []*Term
	for _, x := range a.T {
		for _, y := range b.T {
			if x.Obj == y.Obj && x.Idx == y.Idx && x.Sub == y.Sub {
				ds = append(ds, And(x.G, y.G))
			}
		}
	}
	return Or(ds...)
}

func newErrNil(n int) *ErrVal {
	e := &ErrVal{Nil: True, Bits: make([]*Term, n)}
	for i := range e.Bits {
		e.Bits[i] = False
	}
	return e
}

// iteValue merges two values: c ? a : b. Either may be nil (undefined).
func iteValue(c *Term, a, b Value) Value {
	if c.IsTrue() || b == nil {
		return a
	}
	if c.IsFalse() || a == nil {
		return b
	}
	// an abstract library handle merged with a nil pointer: a nullable handle
	if o, ok := a.(*OpaqueVal); ok {
		if p, ok := b.(*PtrVal); ok && p.isNilTerm().IsTrue() {
			n := o.Nil
			if n == nil {
				n = False
			}
			return &OpaqueVal{Nil: Ite(c, n, True), Kind: o.Kind, Args: o.Args, X: o.X}
		}
	}
	if o, ok := b.(*OpaqueVal); ok {
		if p, ok := a.(*PtrVal); ok && p.isNilTerm().IsTrue() {
			n := o.Nil
			if n == nil {
				n = False
			}
			return &OpaqueVal{Nil: Ite(c, True, n), Kind: o.Kind, Args: o.Args, X: o.X}
		}
	}
	// a nil function value merged with an abstract library option: the nil side is a placeholder
	if fv, ok := b.(*FuncVal); ok && fv.Fn == nil {
		if _, same := a.(*FuncVal); !same {
			return a
		}
	}
	if fv, ok := a.(*FuncVal); ok && fv.Fn == nil {
		if _, same := b.(*FuncVal); !same {
			return b
		}
	}
	switch x := a.(type) {
	case *Term:
		y, ok := b.(*Term)
		if !ok {
			panic(fmt.Sprintf("iteValue: term vs %T", b))
		}
		return Ite(c, x, y)
	case *PtrVal:
		y := b.(*PtrVal)
		var ts []PtrTarget
		nc := Not(c)
		for _, t := range x.T {
			ts = append(ts, PtrTarget{And(c, t.G), t.Obj, t.Idx, t.Sub})
		}
		for _, t := range y.T {
			ts = append(ts, PtrTarget{And(nc, t.G), t.Obj, t.Idx, t.Sub})
		}
		return normPtr(ts)
	case *SliceVal:
		y := b.(*SliceVal)
		n := len(x.Elems)
		if len(y.Elems) > n {
			n = len(y.Elems)
		}
		r := &SliceVal{Elems: make([]Value, n), Len: Ite(c, x.Len, y.Len), Nil: Ite(c, x.Nil, y.Nil)}
		for i := 0; i < n; i++ {
			var u, v Value
			if i < len(x.Elems) {
				u = x.Elems[i]
			}
			if i < len(y.Elems) {
				v = y.Elems[i]
			}
			r.Elems[i] = iteValue(c, u, v)
		}
		return r
	case *ErrVal:
		y := b.(*ErrVal)
		n := len(x.Bits)
		if len(y.Bits) > n {
			n = len(y.Bits)
		}
		r := &ErrVal{Nil: Ite(c, x.Nil, y.Nil), Bits: make([]*Term, n)}
		for i := 0; i < n; i++ {
			u, v := False, False
			if i < len(x.Bits) {
				u = x.Bits[i]
			}
			if i < len(y.Bits) {
				v = y.Bits[i]
			}
			r.Bits[i] = Ite(c, u, v)
		}
		return r
	case *IfaceVal:
		y := b.(*IfaceVal)
		if x.Nil.IsTrue() {
			return &IfaceVal{Nil: Ite(c, True, y.Nil), Typ: y.Typ, V: y.V}
		}
		if y.Nil.IsTrue() {
			return &IfaceVal{Nil: Ite(c, x.Nil, True), Typ: x.Typ, V: x.V}
		}
		if !types.Identical(x.Typ, y.Typ) {
			unsupported("merge of interface values with different dynamic types %v / %v", x.Typ, y.Typ)
		}
		return &IfaceVal{Nil: Ite(c, x.Nil, y.Nil), Typ: x.Typ, V: iteValue(c, x.V, y.V)}
	case TupleVal:
		y := b.(TupleVal)
		r := make(TupleVal, len(x))
		for i := range x {
			r[i] = iteValue(c, x[i], y[i])
		}
		return r
	case *FuncVal:
		y := b.(*FuncVal)
		if y.Fn == nil {
			return x // the nil side is the zero value of a freshly allocated cell
		}
		if x.Fn == nil {
			return y
		}
		if x.Fn != y.Fn {
			unsupported("merge of different function values")
		}
		r := &FuncVal{Fn: x.Fn, Bind: make([]Value, len(x.Bind))}
		for i := range x.Bind {
			r.Bind[i] = iteValue(c, x.Bind[i], y.Bind[i])
		}
		return r
	case *BytesVal:
		y := b.(*BytesVal)
		if x.Obj != y.Obj {
			unsupported("merge of byte slices over different buffers")
		}
		return &BytesVal{Obj: x.Obj, N: Ite(c, x.N, y.N), Cap: x.Cap}
	case *OpaqueVal:
		y := b.(*OpaqueVal)
		if x == y {
			return x
		}
		if x.Kind != y.Kind || len(x.Args) != len(y.Args) {
			unsupported("merge of opaque values %s / %s", x.Kind, y.Kind)
		}
		r := &OpaqueVal{Kind: x.Kind, Args: make([]Value, len(x.Args)), X: x.X}
		for i := range x.Args {
			r.Args[i] = iteValue(c, x.Args[i], y.Args[i])
		}
		if x.Nil != nil || y.Nil != nil {
			xn, yn := x.Nil, y.Nil
			if xn == nil {
				xn = False
			}
			if yn == nil {
				yn = False
			}
			r.Nil = Ite(c, xn, yn)
		}
		return r
	}
	if x, ok := a.(*StructVal); ok {
		y := b.(*StructVal)
		r := &StructVal{Typ: x.Typ, F: make([]Value, len(x.F))}
		for i := range x.F {
			r.F[i] = iteValue(c, x.F[i], y.F[i])
		}
		return r
	}
	panic(fmt.Sprintf("iteValue: unhandled %T", a))
}

// valueEq returns a term for a == b where comparable; nil if not comparable structurally.
func valuesDiffer(a, b Value) *Term {
	if a == nil && b == nil {
		return False
	}
	if a == nil || b == nil {
		return True
	}
	switch x := a.(type) {
	case *Term:
		y := b.(*Term)
		if x.sort == SFP {
			return Not(Eq(x, y))
		}
		return Not(Eq(x, y))
	case *PtrVal:
		if o, ok := b.(*OpaqueVal); ok {
			if x.isNilTerm().IsTrue() {
				if o.Nil == nil {
					return True
				}
				return Not(o.Nil)
			}
			return True
		}
		return Not(ptrEq(x, b.(*PtrVal)))
	case *ErrVal:
		y := b.(*ErrVal)
		ds := []*Term{Not(Eq(x.Nil, y.Nil))}
		for i := range x.Bits {
			if i < len(y.Bits) {
				ds = append(ds, Not(Eq(x.Bits[i], y.Bits[i])))
			}
		}
		return Or(ds...)
	case *SliceVal:
		y := b.(*SliceVal)
		ds := []*Term{Not(Eq(x.Len, y.Len))}
		for i := range x.Elems {
			if i < len(y.Elems) {
				ds = append(ds, And(BVBin(OpBVSLt, BV(int64(i)), x.Len), valuesDiffer(x.Elems[i], y.Elems[i])))
			}
		}
		return Or(ds...)
	case *IfaceVal:
		y := b.(*IfaceVal)
		return Or(Not(Eq(x.Nil, y.Nil)), And(Not(x.Nil), valuesDiffer(x.V, y.V)))
	case *FuncVal:
		y := b.(*FuncVal)
		if x.Fn != y.Fn {
			return True
		}
		var ds []*Term
		for i := range x.Bind {
			ds = append(ds, valuesDiffer(x.Bind[i], y.Bind[i]))
		}
		return Or(ds...)
	case *OpaqueVal:
		if a == b {
			return False
		}
		y, ok := b.(*OpaqueVal)
		if !ok {
			if p, isP := b.(*PtrVal); isP && p.isNilTerm().IsTrue() {
				if x.Nil == nil {
					return True
				}
				return Not(x.Nil)
			}
			return True
		}
		if x.Kind != y.Kind || len(x.Args) != len(y.Args) {
			return True
		}
		var ds []*Term
		for i := range x.Args {
			ds = append(ds, valuesDiffer(x.Args[i], y.Args[i]))
		}
		return Or(ds...)
	}
	if x, ok := a.(*StructVal); ok {
		y, ok := b.(*StructVal)
		if !ok || len(x.F) != len(y.F) {
			return True
		}
		var ds []*Term
		for i := range x.F {
			ds = append(ds, valuesDiffer(x.F[i], y.F[i]))
		}
		return Or(ds...)
	}
	panic(fmt.Sprintf("valuesDiffer: unhandled %T", a))
}
