package main

// Merged (guarded) symbolic execution of go/ssa functions.

import (
	"os"
	"fmt"
	"go/constant"
	"go/token"
	"go/types"
	"sort"
	"strings"

	"golang.org/x/tools/go/ssa"
)

const modulePath = "github.com/goark/go-cvss"
const vrtPath = modulePath + "/internal/zzvrt"

type guarded struct {
	G   *Term
	Msg string
}

type NondetRec struct {
	Label string
	Kind  string // int, enum, bool, string, float, lang, pick
	Var   *Term
	Opts  []string // pick options
	Fixed int64
}

type observeRec struct {
	Label string
	G     *Term
	V     Value
}

type AssertRec struct {
	G    *Term // path guard
	Cond *Term
	Msg  string
	Kind string // assert | reach
}

type Exec struct {
	prog    *ssa.Program
	heap    *Heap
	globals map[*ssa.Global]*Object
	fninfo  map[*ssa.Function]*fnInfo

	assumptions []*Term
	asserts     []AssertRec
	panics      []guarded
	unwinds     []guarded
	nondets     []NondetRec
	labelSeen   map[string]int

	errNames []string // error identities; index 0 = foreign
	depth    int
	maxDepth int
	unroll   int

	symbolicMapOrder bool
	permCount        int

	frameSnap   map[*Object][]Value
	frameEnts   map[*Object]int
	frameObjs   int
	funcsSeen   map[string]bool
	instrCount  int64
	initDone    bool
	initObjects int

	tagIDs map[string]int64
	tagAux map[*Term]*Term // language variable -> index into tagOtherStrings (see tagString)
	oblCache map[*ssa.Function]bool
	history  bool // second run of a two-history harness: vrt.HistoryStep() is true
	observes []observeRec
	frameExempt map[*Object]bool
	fixedStr map[string]string // self-test: string inputs fixed to constants
	fixed  map[string]int64 // cube splitting: labels fixed to constants in this run
}

func newExec(prog *ssa.Program) *Exec {
	return &Exec{
		prog: prog, heap: &Heap{}, globals: map[*ssa.Global]*Object{}, fninfo: map[*ssa.Function]*fnInfo{},
		labelSeen: map[string]int{}, errNames: []string{"<foreign>"}, maxDepth: 24, unroll: 64,
		funcsSeen: map[string]bool{}, tagIDs: map[string]int64{"Und": 0},
	}
}

// ---------------------------------------------------------------------------
// CFG analysis

type loopInfo struct {
	header *ssa.BasicBlock
	blocks []*ssa.BasicBlock // RPO order, header first
	in     map[*ssa.BasicBlock]bool
	defs   []ssa.Value
}

type fnInfo struct {
	rpo    []*ssa.BasicBlock
	loops  map[*ssa.BasicBlock]*loopInfo // by header
	loopOf map[*ssa.BasicBlock]*loopInfo
}

func (ex *Exec) info(fn *ssa.Function) *fnInfo {
	if fi, ok := ex.fninfo[fn]; ok {
		return fi
	}
	fi := &fnInfo{loops: map[*ssa.BasicBlock]*loopInfo{}, loopOf: map[*ssa.BasicBlock]*loopInfo{}}
	// RPO ignoring back edges
	seen := map[*ssa.BasicBlock]bool{}
	var post []*ssa.BasicBlock
	var dfs func(b *ssa.BasicBlock)
	dfs = func(b *ssa.BasicBlock) {
		seen[b] = true
		for _, s := range b.Succs {
			if !seen[s] {
				dfs(s)
			}
		}
		post = append(post, b)
	}
	dfs(fn.Blocks[0])
	for i := len(post) - 1; i >= 0; i-- {
		fi.rpo = append(fi.rpo, post[i])
	}
	pos := map[*ssa.BasicBlock]int{}
	for i, b := range fi.rpo {
		pos[b] = i
	}
	for _, u := range fi.rpo {
		for _, v := range u.Succs {
			if v.Dominates(u) { // back edge u->v
				li := fi.loops[v]
				if li == nil {
					li = &loopInfo{header: v, in: map[*ssa.BasicBlock]bool{v: true}}
					fi.loops[v] = li
				}
				var stack []*ssa.BasicBlock
				if !li.in[u] {
					li.in[u] = true
					stack = append(stack, u)
				}
				for len(stack) > 0 {
					x := stack[len(stack)-1]
					stack = stack[:len(stack)-1]
					for _, p := range x.Preds {
						if !li.in[p] {
							li.in[p] = true
							stack = append(stack, p)
						}
					}
				}
			}
		}
	}
	for _, li := range fi.loops {
		for b := range li.in {
			if other, ok := fi.loopOf[b]; ok && other != li {
				unsupported("nested loops in %s", fn)
			}
			fi.loopOf[b] = li
			li.blocks = append(li.blocks, b)
		}
		sort.Slice(li.blocks, func(i, j int) bool { return pos[li.blocks[i]] < pos[li.blocks[j]] })
		if li.blocks[0] != li.header {
			unsupported("irreducible loop in %s", fn)
		}
		for _, b := range li.blocks {
			for _, ins := range b.Instrs {
				if v, ok := ins.(ssa.Value); ok {
					// only values that are live out of the loop need merging at exits
					if refs := v.Referrers(); refs != nil {
						for _, r := range *refs {
							if !li.in[r.Block()] {
								li.defs = append(li.defs, v)
								break
							}
						}
					}
				}
			}
		}
	}
	ex.fninfo[fn] = fi
	return fi
}

// ---------------------------------------------------------------------------
// frames

type edge struct {
	from *ssa.BasicBlock
	g    *Term
	snap map[ssa.Value]Value
}

type retRec struct {
	g    *Term
	vals []Value
}

type frame struct {
	base  *Term // absolute guard of the call site; block guards inside the frame are relative to it
	ex    *Exec
	fn    *ssa.Function
	env   map[ssa.Value]Value
	edges map[*ssa.BasicBlock][]edge
	rets  []retRec
	// loop state
	curLoop   *loopInfo
	backNext  []edge
	loopExits []edge
}

func (ex *Exec) callFunction(fn *ssa.Function, args []Value, bind []Value, g *Term) Value {
	if fn.Blocks == nil {
		unsupported("call of function without body: %s", fn)
	}
	if g.IsFalse() {
		return ex.zeroResult(fn.Signature)
	}
	if ex.depth >= ex.maxDepth {
		unsupported("inlining depth exceeded at %s", fn)
	}
	ex.depth++
	defer func() { ex.depth-- }()
	ex.funcsSeen[fn.String()] = true
	if os.Getenv("SYMGO_DEBUG_HIST") != "" && ex.depth == 2 && !g.IsTrue() {
		fmt.Fprintf(os.Stderr, "CALL %s under guard %v\n", fn.Name(), g.str(3))
	}
	fr := &frame{ex: ex, fn: fn, env: map[ssa.Value]Value{}, edges: map[*ssa.BasicBlock][]edge{}, base: g}
	if len(args) != len(fn.Params) {
		panic(fmt.Sprintf("arity mismatch calling %s: %d vs %d", fn, len(args), len(fn.Params)))
	}
	for i, p := range fn.Params {
		fr.env[p] = args[i]
	}
	for i, fv := range fn.FreeVars {
		fr.env[fv] = bind[i]
	}
	fi := ex.info(fn)
	fr.edges[fn.Blocks[0]] = []edge{{nil, True, nil}}
	for _, b := range fi.rpo {
		if li := fi.loopOf[b]; li != nil {
			if li.header == b {
				fr.runLoop(li)
			}
			continue
		}
		fr.runBlock(b)
	}
	// merge returns
	if len(fr.rets) == 0 {
		return nil
	}
	n := len(fr.rets[0].vals)
	res := make([]Value, n)
	for i := len(fr.rets) - 1; i >= 0; i-- {
		r := fr.rets[i]
		for j := 0; j < n; j++ {
			if i == len(fr.rets)-1 {
				res[j] = r.vals[j]
			} else {
				res[j] = iteValue(r.g, r.vals[j], res[j])
			}
		}
	}
	switch n {
	case 0:
		return nil
	case 1:
		return res[0]
	}
	return TupleVal(res)
}

func (fr *frame) runLoop(li *loopInfo) {
	ex := fr.ex
	in := fr.edges[li.header]
	fr.curLoop = li
	defer func() { fr.curLoop = nil }()
	for iter := 0; ; iter++ {
		var gs []*Term
		for _, e := range in {
			gs = append(gs, e.g)
		}
		hg := Or(gs...)
		if hg.IsFalse() {
			break
		}
		if iter >= ex.unroll {
			ex.unwinds = append(ex.unwinds, guarded{And(fr.base, hg), fmt.Sprintf("loop unrolling bound %d reached in %s", ex.unroll, fr.fn)})
			break
		}
		for _, b := range li.blocks {
			delete(fr.edges, b)
		}
		fr.edges[li.header] = in
		fr.backNext = nil
		for _, b := range li.blocks {
			fr.runBlock(b)
		}
		in = fr.backNext
	}
	fr.backNext = nil
	// merge loop-defined values over all exit edges (mutually exclusive guards)
	exits := fr.loopExits
	fr.loopExits = nil
	if len(exits) > 0 {
		for _, v := range li.defs {
			var acc Value
			first := true
			for i := len(exits) - 1; i >= 0; i-- {
				x, ok := exits[i].snap[v]
				if !ok {
					continue
				}
				if first {
					acc, first = x, false
				} else {
					acc = iteValue(exits[i].g, x, acc)
				}
			}
			if !first {
				fr.env[v] = acc
			}
		}
	}
}

func (fr *frame) addEdge(from, to *ssa.BasicBlock, g *Term) {
	if g.IsFalse() {
		return
	}
	e := edge{from: from, g: g}
	if li := fr.curLoop; li != nil {
		if to == li.header {
			fr.backNext = append(fr.backNext, e)
			return
		}
		if !li.in[to] {
			snap := make(map[ssa.Value]Value, len(li.defs))
			for _, v := range li.defs {
				if x, ok := fr.env[v]; ok {
					snap[v] = x
				}
			}
			fr.loopExits = append(fr.loopExits, edge{from: from, g: g, snap: snap})
		}
	}
	fr.edges[to] = append(fr.edges[to], e)
}

func (fr *frame) runBlock(b *ssa.BasicBlock) {
	ex := fr.ex
	in := fr.edges[b]
	if len(in) == 0 {
		return
	}
	var gs []*Term
	for _, e := range in {
		gs = append(gs, e.g)
	}
	g := Or(gs...)
	if g.IsFalse() || And(fr.base, g).IsFalse() {
		return
	}
	// phis (parallel)
	var phiVals []Value
	var phis []*ssa.Phi
	for _, ins := range b.Instrs {
		phi, ok := ins.(*ssa.Phi)
		if !ok {
			break
		}
		var acc Value
		first := true
		for i := len(in) - 1; i >= 0; i-- {
			e := in[i]
			pi := -1
			for k, p := range b.Preds {
				if p == e.from {
					pi = k
					break
				}
			}
			if pi < 0 {
				panic("phi: pred not found")
			}
			op := phi.Edges[pi]
			x := fr.eval(op)
			if first {
				acc = x
				first = false
			} else {
				acc = iteValue(e.g, x, acc)
			}
		}
		phis = append(phis, phi)
		phiVals = append(phiVals, acc)
	}
	for i, phi := range phis {
		fr.env[phi] = phiVals[i]
	}
	for _, ins := range b.Instrs[len(phis):] {
		ex.instrCount++
		fr.step(ins, g, b)
		if debugLift {
			if v, ok := ins.(ssa.Value); ok {
				if t, ok := fr.env[v].(*Term); ok && t != nil && t.op == OpCases && len(t.cases) > 40 {
					fmt.Fprintf(os.Stderr, "SIZE %d %s = %s at %s\n", len(t.cases), v.Name(), ins, debugWhere)
				}
			}
		}
	}
}

// ---------------------------------------------------------------------------
// evaluation

var errorType = types.Universe.Lookup("error").Type()

func isErrorType(t types.Type) bool { return types.Identical(t, errorType) }

func isTagType(t types.Type) bool {
	n, ok := t.(*types.Named)
	return ok && n.Obj().Pkg() != nil && n.Obj().Pkg().Path() == "golang.org/x/text/language" && n.Obj().Name() == "Tag"
}

func isRatType(t types.Type) bool {
	n, ok := t.(*types.Named)
	return ok && n.Obj().Pkg() != nil && n.Obj().Pkg().Path() == vrtPath && n.Obj().Name() == "Rat"
}

func namedIs(t types.Type, pkg, name string) bool {
	if p, ok := t.(*types.Pointer); ok {
		t = p.Elem()
	}
	n, ok := t.(*types.Named)
	return ok && n.Obj().Pkg() != nil && n.Obj().Pkg().Path() == pkg && n.Obj().Name() == name
}

func (ex *Exec) zeroValue(t types.Type) Value {
	if isTagType(t) {
		return BV(0)
	}
	if isRatType(t) {
		return zeroConst(SRat)
	}
	if _, isPtr := t.(*types.Pointer); !isPtr {
		if namedIs(t, "strings", "Builder") || namedIs(t, "bytes", "Buffer") {
			return Str("") // held by value inside a struct: the content
		}
		if namedIs(t, "sync", "Once") || namedIs(t, "sync", "Mutex") || namedIs(t, "sync", "RWMutex") {
			return False
		}
	}
	switch u := t.Underlying().(type) {
	case *types.Basic:
		switch {
		case u.Info()&types.IsBoolean != 0:
			return False
		case u.Info()&types.IsInteger != 0:
			return BV(0)
		case u.Info()&types.IsFloat != 0:
			return FP(0)
		case u.Info()&types.IsString != 0:
			return Str("")
		case u.Kind() == types.UnsafePointer:
			return nilPtr()
		}
	case *types.Pointer, *types.Map:
		return nilPtr()
	case *types.Slice:
		return &SliceVal{Len: BV(0), Nil: True}
	case *types.Interface:
		if isErrorType(t) {
			return newErrNil(len(ex.errNames))
		}
		return &IfaceVal{Nil: True}
	case *types.Signature:
		return &FuncVal{}
	case *types.Chan:
		return nilPtr()
	case *types.Struct:
		sv := &StructVal{Typ: t, F: make([]Value, u.NumFields())}
		for i := range sv.F {
			sv.F[i] = ex.zeroValue(u.Field(i).Type())
		}
		return sv
	}
	unsupported("zero value of %v", t)
	return nil
}

func (ex *Exec) newObjectOf(t types.Type, name string) *PtrVal {
	if isTagType(t) || isRatType(t) {
		o := ex.heap.newObj(KCell, t, 1, name)
		o.cells[0] = ex.zeroValue(t)
		return ptrTo(o, 0)
	}
	if namedIs(t, "sync", "Map") {
		o := ex.heap.newObj(KMap, nil, 0, name)
		return ptrTo(o, -1)
	}
	if namedIs(t, "sync", "Once") {
		o := ex.heap.newObj(KCell, t, 1, name)
		o.cells[0] = False // done
		return ptrTo(o, 0)
	}
	if namedIs(t, "sync", "Mutex") || namedIs(t, "sync", "RWMutex") {
		o := ex.heap.newObj(KCell, t, 1, name)
		o.cells[0] = False
		return ptrTo(o, 0)
	}
	if namedIs(t, "strings", "Builder") || namedIs(t, "bytes", "Buffer") {
		o := ex.heap.newObj(KBuilder, t, 1, name)
		o.cells[0] = Str("")
		return ptrTo(o, -1)
	}
	switch u := t.Underlying().(type) {
	case *types.Struct:
		o := ex.heap.newObj(KStruct, t, u.NumFields(), name)
		for i := 0; i < u.NumFields(); i++ {
			ft := u.Field(i).Type()
			o.cells[i] = ex.zeroValue(ft)
		}
		return ptrTo(o, -1)
	case *types.Array:
		if bt, ok := u.Elem().Underlying().(*types.Basic); ok && bt.Kind() == types.Uint8 {
			// byte arrays are abstract byte buffers (content = a string term)
			o := ex.heap.newObj(KBuilder, t, 1, "bytebuf")
			o.cells[0] = Str("")
			return ptrTo(o, -1)
		}
		o := ex.heap.newObj(KArray, t, int(u.Len()), name)
		for i := range o.cells {
			o.cells[i] = ex.zeroValue(u.Elem())
		}
		return ptrTo(o, -1)
	}
	o := ex.heap.newObj(KCell, t, 1, name)
	o.cells[0] = ex.zeroValue(t)
	return ptrTo(o, 0)
}

func (ex *Exec) globalObj(gl *ssa.Global) *PtrVal {
	if o, ok := ex.globals[gl]; ok {
		if o.kind == KCell {
			return ptrTo(o, 0)
		}
		return ptrTo(o, -1)
	}
	t := gl.Type().(*types.Pointer).Elem()
	p := ex.newObjectOf(t, gl.String())
	o := p.T[0].Obj
	o.global = true
	ex.globals[gl] = o
	return p
}

func (ex *Exec) constValue(c *ssa.Const) Value {
	t := c.Type()
	if c.Value == nil {
		return ex.zeroValue(t)
	}
	switch u := t.Underlying().(type) {
	case *types.Basic:
		switch {
		case u.Info()&types.IsBoolean != 0:
			return Bool(constant.BoolVal(c.Value))
		case u.Info()&types.IsInteger != 0:
			if i, ok := constant.Int64Val(constant.ToInt(c.Value)); ok {
				return BV(i)
			}
			if u64, ok := constant.Uint64Val(constant.ToInt(c.Value)); ok {
				return BV(int64(u64))
			}
		case u.Info()&types.IsFloat != 0:
			f, _ := constant.Float64Val(c.Value)
			return FP(f)
		case u.Info()&types.IsString != 0:
			return Str(constant.StringVal(c.Value))
		}
	}
	unsupported("constant %v of type %v", c, t)
	return nil
}

func (fr *frame) eval(v ssa.Value) Value {
	switch x := v.(type) {
	case *ssa.Const:
		return fr.ex.constValue(x)
	case *ssa.Global:
		return fr.ex.globalObj(x)
	case *ssa.Function:
		return &FuncVal{Fn: x}
	case *ssa.Builtin:
		return &OpaqueVal{Kind: "builtin:" + x.Name()}
	}
	r, ok := fr.env[v]
	if !ok {
		panic(fmt.Sprintf("eval: undefined value %s = %s in %s", v.Name(), v, fr.fn))
	}
	return r
}

func (fr *frame) term(v ssa.Value) *Term {
	x := fr.eval(v)
	t, ok := x.(*Term)
	if !ok {
		panic(fmt.Sprintf("expected scalar for %s (%s), got %T", v.Name(), v, x))
	}
	return t
}

func (ex *Exec) panicIf(g *Term, msg string) {
	if g.IsFalse() {
		return
	}
	ex.panics = append(ex.panics, guarded{g, msg})
}

// prunePtr drops the targets of p that are excluded by the current absolute path guard (e.g. the nil
// target inside `if p != nil { ... }`); a single remaining target becomes unconditional.
func prunePtr(p *PtrVal, g *Term) *PtrVal {
	if len(p.T) < 2 {
		return p
	}
	var ts []PtrTarget
	for _, t := range p.T {
		if And(g, t.G).IsFalse() {
			continue
		}
		ts = append(ts, t)
	}
	if len(ts) == len(p.T) || len(ts) == 0 {
		return p
	}
	if len(ts) == 1 {
		ts[0].G = True
	}
	return &PtrVal{T: ts}
}

// load reads through a pointer value.
func (ex *Exec) load(p *PtrVal, g *Term, where string) Value {
	var acc Value
	first := true
	for i := len(p.T) - 1; i >= 0; i-- {
		t := p.T[i]
		if t.Obj == nil {
			ex.panicIf(And(g, t.G), "nil pointer dereference at "+where)
			continue
		}
		var x Value
		if t.Idx < 0 {
			if t.Obj.kind == KBuilder {
				x = t.Obj.cells[0]
			} else if t.Obj.kind == KStruct {
				x = &StructVal{Typ: t.Obj.typ, F: append([]Value(nil), t.Obj.cells...)}
			} else {
				unsupported("load of whole aggregate %v at %s", t.Obj.typ, where)
			}
		} else {
			x = t.Obj.cells[t.Idx]
			if t.Sub != "" {
				x = subGet(x, subPath(t.Sub))
			}
		}
		if first {
			acc = x
			first = false
		} else {
			acc = iteValue(t.G, x, acc)
		}
	}
	return acc
}

func (ex *Exec) store(p *PtrVal, val Value, g *Term, where string) {
	for _, t := range p.T {
		if t.Obj == nil {
			ex.panicIf(And(g, t.G), "nil pointer store at "+where)
			continue
		}
		c := And(g, t.G)
		if t.Obj.born != nil && c == t.Obj.born {
			// the object only exists where this store happens: no merge with the previous content needed
			c = True
		}
		if t.Idx < 0 {
			sv, ok := val.(*StructVal)
			if !ok || t.Obj.kind != KStruct || len(sv.F) != len(t.Obj.cells) {
				unsupported("store of whole aggregate at %s", where)
			}
			for i := range sv.F {
				t.Obj.cells[i] = iteValue(c, sv.F[i], t.Obj.cells[i])
			}
			continue
		}
		if t.Sub != "" {
			t.Obj.cells[t.Idx] = subSet(t.Obj.cells[t.Idx], subPath(t.Sub), func(old Value) Value { return iteValue(c, val, old) })
			continue
		}
		t.Obj.cells[t.Idx] = iteValue(c, val, t.Obj.cells[t.Idx])
	}
}

func (ex *Exec) mapLookup(m *PtrVal, key Value, elem types.Type, g *Term) (Value, *Term) {
	var val Value
	ok := False
	first := true
	for i := len(m.T) - 1; i >= 0; i-- {
		t := m.T[i]
		var v Value = ex.zeroValue(elem)
		present := False
		if t.Obj != nil {
			for _, e := range t.Obj.entries {
				hit := And(e.G, keyEq(e.Key, key))
				if hit.IsFalse() {
					continue
				}
				v = iteValue(hit, e.Val, v)
				present = Or(hit, present)
			}
		}
		if first {
			val, ok = v, present
			first = false
		} else {
			val = iteValue(t.G, v, val)
			ok = Ite(t.G, present, ok)
		}
	}
	return val, ok
}

func (ex *Exec) mapUpdate(m *PtrVal, key Value, val Value, g *Term) {
	for _, t := range m.T {
		if t.Obj == nil {
			ex.panicIf(And(g, t.G), "assignment to entry in nil map")
			continue
		}
		eg := And(g, t.G)
		if t.Obj.born != nil && eg == t.Obj.born {
			eg = True
		}
		t.Obj.entries = append(t.Obj.entries, MapEntry{G: eg, Key: key, Val: val})
	}
}

// ---------------------------------------------------------------------------
// instructions

type ElemRef struct {
	S   *SliceVal
	Idx *Term
	Sub string // field path inside a struct element (see PtrTarget.Sub)
}

func (fr *frame) step(ins ssa.Instruction, lg *Term, b *ssa.BasicBlock) {
	ex := fr.ex
	// lg: guard relative to the frame (used for control flow and value merging);
	// g: absolute guard (used for side effects: stores, panics, assertions, calls)
	g := And(fr.base, lg)
	where := func() string { return ex.prog.Fset.Position(ins.Pos()).String() }
	if debugLift {
		debugWhere = where()
	}
	switch x := ins.(type) {
	case *ssa.DebugRef:
	case *ssa.Alloc:
		p := ex.newObjectOf(x.Type().(*types.Pointer).Elem(), x.Comment)
		p.T[0].Obj.born = g
		fr.env[x] = p
	case *ssa.FieldAddr:
		if er, ok := fr.eval(x.X).(*ElemRef); ok {
			fr.env[x] = &ElemRef{S: er.S, Idx: er.Idx, Sub: er.Sub + "." + fmt.Sprint(x.Field)}
			return
		}
		p := prunePtr(fr.eval(x.X).(*PtrVal), g)
		var ts []PtrTarget
		for _, t := range p.T {
			if t.Obj == nil {
				ex.panicIf(And(g, t.G), "nil pointer dereference (field address) at "+where())
				continue
			}
			if t.Idx >= 0 {
				// a pointer to a cell that holds a struct by value (array element, nested struct field)
				ts = append(ts, PtrTarget{t.G, t.Obj, t.Idx, t.Sub + "." + fmt.Sprint(x.Field)})
				continue
			}
			if t.Obj.kind != KStruct {
				unsupported("field address into %v at %s", t.Obj.typ, where())
			}
			ts = append(ts, PtrTarget{G: t.G, Obj: t.Obj, Idx: x.Field})
		}
		if len(ts) == 0 {
			// always nil: value irrelevant (panic recorded)
			fr.env[x] = nilPtr()
		} else {
			fr.env[x] = normPtr(ts)
		}
	case *ssa.IndexAddr:
		switch base := fr.eval(x.X).(type) {
		case *PtrVal:
			idx := fr.term(x.Index)
			if idx.op != OpConst {
				// symbolic index into a fixed-size array: one guarded target per cell, out of range panics
				var ts []PtrTarget
				for _, t := range base.T {
					if t.Obj == nil {
						ex.panicIf(And(g, t.G), "nil array pointer at "+where())
						continue
					}
					if t.Idx >= 0 || t.Sub != "" {
						unsupported("symbolic index into a nested array at %s", where())
					}
					n := int64(len(t.Obj.cells))
					oob := Or(BVBin(OpBVSLt, idx, BV(0)), Not(BVBin(OpBVSLt, idx, BV(n))))
					ex.panicIf(And(g, t.G, oob), "array index out of range at "+where())
					for k := int64(0); k < n; k++ {
						gk := And(t.G, Eq(idx, BV(k)))
						if gk.IsFalse() {
							continue
						}
						ts = append(ts, PtrTarget{G: gk, Obj: t.Obj, Idx: int(k)})
					}
				}
				if len(ts) == 0 {
					fr.env[x] = nilPtr()
				} else {
					fr.env[x] = normPtr(ts)
				}
				return
			}
			var ts []PtrTarget
			for _, t := range base.T {
				if t.Obj == nil {
					ex.panicIf(And(g, t.G), "nil array pointer at "+where())
					continue
				}
				if int(idx.i) >= len(t.Obj.cells) || idx.i < 0 {
					ex.panicIf(And(g, t.G), "array index out of range at "+where())
					continue
				}
				ts = append(ts, PtrTarget{G: t.G, Obj: t.Obj, Idx: int(idx.i)})
			}
			fr.env[x] = normPtr(ts)
		case *SliceVal:
			fr.env[x] = &ElemRef{S: base, Idx: fr.term(x.Index)}
			// bounds check
			idx := fr.term(x.Index)
			oob := Or(BVBin(OpBVSLt, idx, BV(0)), Not(BVBin(OpBVSLt, idx, base.Len)))
			ex.panicIf(And(g, oob), "index out of range at "+where())
		default:
			unsupported("IndexAddr on %T at %s", base, where())
		}
	case *ssa.UnOp:
		switch x.Op {
		case token.MUL:
			switch p := fr.eval(x.X).(type) {
			case *PtrVal:
				if gl, ok := x.X.(*ssa.Global); ok {
					if v, ok := ex.externGlobal(gl); ok {
						fr.env[x] = v
						return
					}
				}
				v := ex.load(p, g, where())
				if v == nil {
					v = ex.zeroValue(x.Type()) // every target is nil: the panic is recorded, the value is irrelevant
				}
				fr.env[x] = v
			case *ElemRef:
				fr.env[x] = ex.loadElem(p, g, where(), x.Type())
			default:
				unsupported("load through %T at %s", p, where())
			}
		case token.XOR:
			fr.env[x] = BVBin(OpBVXor, fr.term(x.X), BV(-1))
		case token.NOT:
			fr.env[x] = Not(fr.term(x.X))
		case token.SUB:
			t := fr.term(x.X)
			if t.sort == SFP {
				fr.env[x] = FPOp(OpFPNeg, t)
			} else {
				fr.env[x] = BVNeg(t)
			}
		default:
			unsupported("unary op %v at %s", x.Op, where())
		}
	case *ssa.Store:
		switch p := fr.eval(x.Addr).(type) {
		case *PtrVal:
			ex.store(p, fr.eval(x.Val), g, where())
		default:
			unsupported("store through %T at %s", p, where())
		}
	case *ssa.BinOp:
		fr.env[x] = fr.binop(x, where())
	case *ssa.Phi:
		panic("phi in block body")
	case *ssa.Call:
		fr.env[x] = fr.doCall(x.Common(), x, g, where())
	case *ssa.Extract:
		fr.env[x] = fr.eval(x.Tuple).(TupleVal)[x.Index]
	case *ssa.Field:
		sv, ok := fr.eval(x.X).(*StructVal)
		if !ok {
			unsupported("field of %T at %s", fr.eval(x.X), where())
		}
		fr.env[x] = sv.F[x.Field]
	case *ssa.MakeInterface:
		v := fr.eval(x.X)
		if isErrorType(x.Type()) {
			if ev, ok := v.(*ErrVal); ok {
				fr.env[x] = ev
				return
			}
			unsupported("conversion of %v to error at %s", x.X.Type(), where())
		}
		fr.env[x] = &IfaceVal{Nil: False, Typ: x.X.Type(), V: v}
	case *ssa.ChangeInterface:
		fr.env[x] = fr.eval(x.X)
	case *ssa.ChangeType:
		fr.env[x] = fr.eval(x.X)
	case *ssa.Convert:
		fr.env[x] = fr.convert(x, where())
	case *ssa.MakeClosure:
		fv := &FuncVal{Fn: x.Fn.(*ssa.Function)}
		for _, bnd := range x.Bindings {
			fv.Bind = append(fv.Bind, fr.eval(bnd))
		}
		fr.env[x] = fv
	case *ssa.MakeSlice:
		st, _ := x.Type().Underlying().(*types.Slice)
		bt, isB := st.Elem().Underlying().(*types.Basic)
		ln := fr.term(x.Len)
		if st == nil || !isB || bt.Kind() != types.Uint8 || ln.op != OpConst {
			unsupported("make of %v at %s", x.Type(), where())
		}
		o := ex.heap.newObj(KBuilder, nil, 1, "bytebuf")
		o.born = g
		o.cells[0] = Str("")
		fr.env[x] = &BytesVal{Obj: o, N: ln, Cap: int(ln.i)}
	case *ssa.MakeMap:
		o := ex.heap.newObj(KMap, x.Type(), 0, "map")
		o.born = g
		fr.env[x] = ptrTo(o, -1)
	case *ssa.MapUpdate:
		ex.mapUpdate(fr.eval(x.Map).(*PtrVal), fr.eval(x.Key), fr.eval(x.Value), g)
	case *ssa.Lookup:
		mt, ok := x.X.Type().Underlying().(*types.Map)
		if !ok {
			unsupported("string index at %s", where())
		}
		v, okT := ex.mapLookup(fr.eval(x.X).(*PtrVal), fr.eval(x.Index), mt.Elem(), g)
		if x.CommaOk {
			fr.env[x] = TupleVal{v, okT}
		} else {
			fr.env[x] = v
		}
	case *ssa.Slice:
		fr.env[x] = fr.slice(x, g, where())
	case *ssa.Range:
		fr.env[x] = fr.mkRange(x, g, where())
	case *ssa.Next:
		fr.env[x] = fr.next(x, g, where())
	case *ssa.TypeAssert:
		fr.env[x] = fr.typeAssert(x, g, where())
	case *ssa.If:
		c := fr.term(x.Cond)
		fr.addEdge(b, b.Succs[0], And(lg, c))
		fr.addEdge(b, b.Succs[1], And(lg, Not(c)))
	case *ssa.Jump:
		fr.addEdge(b, b.Succs[0], lg)
	case *ssa.Return:
		vals := make([]Value, len(x.Results))
		for i, r := range x.Results {
			vals[i] = fr.eval(r)
		}
		fr.rets = append(fr.rets, retRec{lg, vals})
	case *ssa.Panic:
		ex.panicIf(g, "explicit panic at "+where())
	default:
		unsupported("instruction %T (%s) at %s", ins, ins, where())
	}
}

func (ex *Exec) loadElem(p *ElemRef, g *Term, where string, t types.Type) Value {
	s := p.S
	path := subPath(p.Sub)
	get := func(i int64) Value {
		if i < 0 {
			return nil
		}
		if int(i) >= len(s.Elems) {
			// beyond the represented prefix: unwinding failure if reachable
			ex.unwinds = append(ex.unwinds, guarded{And(g, BVBin(OpBVSLt, BV(i), s.Len)), "slice element beyond modelled prefix at " + where})
			return nil
		}
		return subGet(s.Elems[i], path)
	}
	if p.Idx.op == OpConst {
		v := get(p.Idx.i)
		if v == nil {
			return ex.zeroValue(t)
		}
		return v
	}
	if p.Idx.op == OpCases {
		var acc Value
		for _, c := range p.Idx.cases {
			v := get(c.V.i)
			if v == nil {
				continue
			}
			if acc == nil {
				acc = v
			} else {
				acc = iteValue(c.G, v, acc)
			}
		}
		if acc == nil {
			return ex.zeroValue(t)
		}
		return acc
	}
	// free symbolic index over the represented prefix (the slice length must be concrete)
	if s.Len.op != OpConst || int(s.Len.i) > len(s.Elems) || s.Len.i > 512 {
		unsupported("symbolic slice index into a slice of symbolic length at %s", where)
	}
	var acc Value
	for i := int64(0); i < s.Len.i; i++ {
		v := get(i)
		if acc == nil {
			acc = v
		} else {
			acc = iteValue(Eq(p.Idx, BV(i)), v, acc)
		}
	}
	if acc == nil {
		return ex.zeroValue(t)
	}
	return acc
}

func (fr *frame) slice(x *ssa.Slice, g *Term, where string) Value {
	ex := fr.ex
	cidx := func(v ssa.Value, def int64) int64 {
		if v == nil {
			return def
		}
		t := fr.term(v)
		if t.op != OpConst {
			unsupported("symbolic slice bound at %s", where)
		}
		return t.i
	}
	switch base := fr.eval(x.X).(type) {
	case *BytesVal:
		if x.Low != nil {
			unsupported("byte slice with a low bound at %s", where)
		}
		n := base.N
		if x.High != nil {
			n = fr.term(x.High)
		}
		return &BytesVal{Obj: base.Obj, N: n, Cap: base.Cap}
	case *PtrVal: // pointer to array
		if len(base.T) == 1 && base.T[0].Obj != nil && base.T[0].Obj.name == "bytebuf" {
			o := base.T[0].Obj
			capN := int(o.typ.Underlying().(*types.Array).Len())
			if x.Low != nil {
				unsupported("byte slice with a low bound at %s", where)
			}
			n := BV(int64(capN))
			if x.High != nil {
				n = fr.term(x.High)
			}
			return &BytesVal{Obj: o, N: n, Cap: capN}
		}
		if len(base.T) != 1 || base.T[0].Obj == nil || base.T[0].Obj.kind != KArray {
			unsupported("slice of non-array pointer at %s", where)
		}
		o := base.T[0].Obj
		lo := cidx(x.Low, 0)
		hi := cidx(x.High, int64(len(o.cells)))
		s := &SliceVal{Len: BV(hi - lo), Nil: False}
		for i := lo; i < hi; i++ {
			s.Elems = append(s.Elems, o.cells[i])
		}
		return s
	case *SliceVal:
		lo := cidx(x.Low, 0)
		if x.High != nil || x.Max != nil {
			unsupported("slice high bound at %s", where)
		}
		// s[lo:] panics if lo > len
		ex.panicIf(And(g, BVBin(OpBVSLt, base.Len, BV(lo))), "slice bounds out of range at "+where)
		s := &SliceVal{Len: BVBin(OpBVSub, base.Len, BV(lo)), Nil: False}
		if int(lo) < len(base.Elems) {
			s.Elems = base.Elems[lo:]
		}
		return s
	}
	unsupported("slice of %T at %s", fr.eval(x.X), where)
	return nil
}

func (fr *frame) convert(x *ssa.Convert, where string) Value {
	v := fr.eval(x.X)
	from, to := x.X.Type().Underlying(), x.Type().Underlying()
	fb, ok1 := from.(*types.Basic)
	tb, ok2 := to.(*types.Basic)
	if ok1 && ok2 {
		switch {
		case fb.Info()&types.IsInteger != 0 && tb.Info()&types.IsInteger != 0:
			return v
		case fb.Info()&types.IsInteger != 0 && tb.Info()&types.IsFloat != 0:
			return FPFromBV(v.(*Term))
		case fb.Info()&types.IsFloat != 0 && tb.Info()&types.IsInteger != 0:
			return FPOp(OpFPToInt, v.(*Term))
		case fb.Info()&types.IsFloat != 0 && tb.Info()&types.IsFloat != 0:
			return v
		case fb.Info()&types.IsString != 0 && tb.Info()&types.IsString != 0:
			return v
		}
	}
	if bv, ok := v.(*BytesVal); ok && tb != nil && tb.Info()&types.IsString != 0 {
		// string(b) of an abstract byte view: the first N bytes of the buffer content
		content := bv.Obj.cells[0].(*Term)
		if bv.N == StrLenBV(content) {
			return content
		}
		unsupported("string() of a byte view that is shorter than the data last read at %s", where)
	}
	unsupported("conversion %v -> %v at %s", x.X.Type(), x.Type(), where)
	return nil
}

func (fr *frame) binop(x *ssa.BinOp, where string) Value {
	a, b := fr.eval(x.X), fr.eval(x.Y)
	switch av := a.(type) {
	case *Term:
		bv := b.(*Term)
		switch av.sort {
		case SBool:
			switch x.Op {
			case token.EQL:
				return Eq(av, bv)
			case token.NEQ:
				return Not(Eq(av, bv))
			case token.LAND:
				return And(av, bv)
			case token.LOR:
				return Or(av, bv)
			}
		case SBV:
			switch x.Op {
			case token.ADD:
				return BVBin(OpBVAdd, av, bv)
			case token.SUB:
				return BVBin(OpBVSub, av, bv)
			case token.MUL:
				return BVBin(OpBVMul, av, bv)
			case token.QUO:
				fr.ex.panicIf(Eq(bv, BV(0)), "integer divide by zero at "+where)
				return BVBin(OpBVSDiv, av, bv)
			case token.REM:
				fr.ex.panicIf(Eq(bv, BV(0)), "integer divide by zero at "+where)
				return BVBin(OpBVSRem, av, bv)
			case token.EQL:
				return Eq(av, bv)
			case token.NEQ:
				return Not(Eq(av, bv))
			case token.LSS:
				return BVBin(OpBVSLt, av, bv)
			case token.LEQ:
				return BVBin(OpBVSLe, av, bv)
			case token.GTR:
				return BVBin(OpBVSLt, bv, av)
			case token.GEQ:
				return BVBin(OpBVSLe, bv, av)
			case token.AND:
				return BVBin(OpBVAnd, av, bv)
			case token.OR:
				return BVBin(OpBVOr, av, bv)
			case token.XOR:
				return BVBin(OpBVXor, av, bv)
			case token.AND_NOT:
				return BVBin(OpBVAnd, av, BVBin(OpBVXor, bv, BV(-1)))
			case token.SHL:
				fr.ex.panicIf(BVBin(OpBVSLt, bv, BV(0)), "negative shift amount at "+where)
				return BVBin(OpBVShl, av, bv)
			case token.SHR:
				fr.ex.panicIf(BVBin(OpBVSLt, bv, BV(0)), "negative shift amount at "+where)
				if bt, ok := x.X.Type().Underlying().(*types.Basic); ok && bt.Info()&types.IsUnsigned != 0 {
					return BVBin(OpBVLshr, av, bv)
				}
				return BVBin(OpBVAshr, av, bv)
			}
		case SFP:
			switch x.Op {
			case token.ADD:
				return FPOp(OpFPAdd, av, bv)
			case token.SUB:
				return FPOp(OpFPSub, av, bv)
			case token.MUL:
				return FPOp(OpFPMul, av, bv)
			case token.QUO:
				return FPOp(OpFPDiv, av, bv)
			case token.EQL:
				return FPOp(OpFPEq, av, bv)
			case token.NEQ:
				return Not(FPOp(OpFPEq, av, bv))
			case token.LSS:
				return FPOp(OpFPLt, av, bv)
			case token.LEQ:
				return FPOp(OpFPLe, av, bv)
			case token.GTR:
				return FPOp(OpFPLt, bv, av)
			case token.GEQ:
				return FPOp(OpFPLe, bv, av)
			}
		case SStr:
			switch x.Op {
			case token.ADD:
				return Concat(av, bv)
			case token.EQL:
				return Eq(av, bv)
			case token.NEQ:
				return Not(Eq(av, bv))
			}
		case SRat:
			switch x.Op {
			case token.EQL:
				return Eq(av, bv)
			case token.NEQ:
				return Not(Eq(av, bv))
			}
		}
	case *PtrVal:
		if o, ok := b.(*OpaqueVal); ok && av.isNilTerm().IsTrue() {
			eq := o.Nil
			if eq == nil {
				eq = False
			}
			if x.Op == token.EQL {
				return eq
			}
			return Not(eq)
		}
		bv := b.(*PtrVal)
		switch x.Op {
		case token.EQL:
			return ptrEq(av, bv)
		case token.NEQ:
			return Not(ptrEq(av, bv))
		}
	case *ErrVal:
		bv := b.(*ErrVal)
		var eq *Term
		if bv.Nil.IsTrue() {
			eq = av.Nil
		} else if av.Nil.IsTrue() {
			eq = bv.Nil
		} else if i, ok := singleIdentity(bv); ok {
			eq = And(Not(av.Nil), av.bit(i))
		} else if i, ok := singleIdentity(av); ok {
			eq = And(Not(bv.Nil), bv.bit(i))
		} else {
			unsupported("comparison of two non-nil errors at %s", where)
		}
		if x.Op == token.EQL {
			return eq
		}
		return Not(eq)
	case *IfaceVal:
		bv := b.(*IfaceVal)
		var eq *Term
		if bv.Nil.IsTrue() {
			eq = av.Nil
		} else if av.Nil.IsTrue() {
			eq = bv.Nil
		} else {
			unsupported("comparison of two non-nil interfaces at %s", where)
		}
		if x.Op == token.EQL {
			return eq
		}
		return Not(eq)
	case *SliceVal:
		bv := b.(*SliceVal)
		var eq *Term
		if bv.Nil.IsTrue() {
			eq = av.Nil
		} else {
			eq = bv.Nil
		}
		if x.Op == token.EQL {
			return eq
		}
		return Not(eq)
	case *OpaqueVal:
		if p, ok := b.(*PtrVal); ok && p.isNilTerm().IsTrue() {
			eq := av.Nil
			if eq == nil {
				eq = False
			}
			if x.Op == token.EQL {
				return eq
			}
			return Not(eq)
		}
	case *StructVal:
		d := valuesDiffer(av, b)
		if x.Op == token.EQL {
			return Not(d)
		}
		if x.Op == token.NEQ {
			return d
		}
	case *FuncVal:
		bv := b.(*FuncVal)
		eq := Bool(av.Fn == nil && bv.Fn == nil)
		if x.Op == token.EQL {
			return eq
		}
		return Not(eq)
	}
	unsupported("binary op %v on %T at %s", x.Op, a, where)
	return nil
}

// ---------------------------------------------------------------------------
// map iteration

type rangeIter struct {
	keys []Value
	vals []Value
	live []*Term // entry present guard (all true for init-built tables)
	pos  int
}

func (fr *frame) mkRange(x *ssa.Range, g *Term, where string) Value {
	ex := fr.ex
	if _, ok := x.X.Type().Underlying().(*types.Map); !ok {
		unsupported("range over string at %s", where)
	}
	m := fr.eval(x.X).(*PtrVal)
	if len(m.T) != 1 {
		unsupported("range over a guarded set of maps at %s", where)
	}
	it := &rangeIter{}
	if o := m.T[0].Obj; o != nil {
		// only maps whose entries are unconditional with distinct constant keys
		seen := map[string]int{}
		for _, e := range o.entries {
			k := e.Key.(*Term)
			if !e.G.IsTrue() || k.op != OpConst {
				unsupported("range over map with symbolic entries at %s", where)
			}
			ck := constKey(k)
			if j, ok := seen[ck]; ok {
				it.vals[j] = e.Val
				continue
			}
			seen[ck] = len(it.keys)
			it.keys = append(it.keys, k)
			it.vals = append(it.vals, e.Val)
		}
	}
	n := len(it.keys)
	if ex.symbolicMapOrder && n > 1 {
		// symbolic permutation: position j holds entry p_j, all p_j distinct
		ex.permCount++
		ps := make([]*Term, n)
		for j := 0; j < n; j++ {
			v := NewVar(fmt.Sprintf("perm%d_%d", ex.permCount, j), SBV)
			v.ranged, v.lo, v.hi = true, 0, int64(n-1)
			ps[j] = v
			var ds []*Term
			for k := 0; k < n; k++ {
				ds = append(ds, Eq(v, BV(int64(k))))
			}
			ex.assumptions = append(ex.assumptions, Or(ds...))
		}
		for j := 0; j < n; j++ {
			for k := j + 1; k < n; k++ {
				ex.assumptions = append(ex.assumptions, Not(Eq(ps[j], ps[k])))
			}
		}
		nk := make([]Value, n)
		nv := make([]Value, n)
		for j := 0; j < n; j++ {
			var kk, vv Value
			for k := n - 1; k >= 0; k-- {
				c := Eq(ps[j], BV(int64(k)))
				if kk == nil {
					kk, vv = it.keys[k], it.vals[k]
				} else {
					kk = iteValue(c, it.keys[k], kk)
					vv = iteValue(c, it.vals[k], vv)
				}
			}
			nk[j], nv[j] = kk, vv
		}
		it.keys, it.vals = nk, nv
	} else {
		// fixed order: sorted by key constant
		idx := make([]int, n)
		for i := range idx {
			idx[i] = i
		}
		sort.Slice(idx, func(a, b int) bool {
			ka, kb := it.keys[idx[a]].(*Term), it.keys[idx[b]].(*Term)
			if ka.sort == SStr {
				return ka.s < kb.s
			}
			return ka.i < kb.i
		})
		nk := make([]Value, n)
		nv := make([]Value, n)
		for i, j := range idx {
			nk[i], nv[i] = it.keys[j], it.vals[j]
		}
		it.keys, it.vals = nk, nv
	}
	return &OpaqueVal{Kind: "rangeiter", X: it}
}

func (fr *frame) next(x *ssa.Next, g *Term, where string) Value {
	if x.IsString {
		unsupported("range over string at %s", where)
	}
	it := fr.eval(x.Iter).(*OpaqueVal).X.(*rangeIter)
	mt := x.Iter.(*ssa.Range).X.Type().Underlying().(*types.Map)
	if it.pos >= len(it.keys) {
		return TupleVal{False, fr.ex.zeroValue(mt.Key()), fr.ex.zeroValue(mt.Elem())}
	}
	k, v := it.keys[it.pos], it.vals[it.pos]
	it.pos++
	return TupleVal{True, k, v}
}

func (fr *frame) typeAssert(x *ssa.TypeAssert, g *Term, where string) Value {
	v := fr.eval(x.X)
	iv, ok := v.(*IfaceVal)
	if !ok {
		unsupported("type assertion on %T at %s", v, where)
	}
	match := False
	if iv.Typ != nil && types.Identical(iv.Typ, x.AssertedType) {
		match = Not(iv.Nil)
	}
	var res Value
	if iv.Typ != nil && types.Identical(iv.Typ, x.AssertedType) {
		res = iv.V
	} else {
		res = fr.ex.zeroValue(x.AssertedType)
	}
	if x.CommaOk {
		return TupleVal{res, match}
	}
	fr.ex.panicIf(And(g, Not(match)), "failed type assertion at "+where)
	return res
}

// externGlobal gives values for globals of packages that are modelled, not executed.
func (ex *Exec) externGlobal(gl *ssa.Global) (Value, bool) {
	if gl.Pkg == nil {
		return nil, false
	}
	path := gl.Pkg.Pkg.Path()
	if path == "golang.org/x/text/language" && isTagType(gl.Type().(*types.Pointer).Elem()) {
		return ex.tagConst(gl.Name()), true
	}
	if path == "io" && gl.Name() == "EOF" {
		return ex.eofErr(), true
	}
	if strings.HasPrefix(path, modulePath) {
		return nil, false
	}
	unsupported("read of external global %s", gl)
	return nil, false
}

func (ex *Exec) tagConst(name string) *Term {
	id, ok := ex.tagIDs[name]
	if !ok {
		id = int64(len(ex.tagIDs))
		ex.tagIDs[name] = id
	}
	return BV(id)
}

// singleIdentity: e is a constant non-nil error with exactly one identity (a sentinel such as io.EOF)
func singleIdentity(e *ErrVal) (int, bool) {
	if !e.Nil.IsFalse() {
		return 0, false
	}
	idx := -1
	for i, b := range e.Bits {
		if b.IsTrue() {
			if idx >= 0 {
				return 0, false
			}
			idx = i
		} else if !b.IsFalse() {
			return 0, false
		}
	}
	return idx, idx >= 0
}
