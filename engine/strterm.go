package main

// String terms: flat concatenation normal form, separator-aware segment lists
// (OpSegStr), Split model, equality rewriting.

import (
	"strings"
)

func isStrConst(t *Term) bool { return t.op == OpConst && t.sort == SStr }

// Concat builds a flat concatenation; adjacent constants are merged, adjacent
// liftable parts are merged while the product stays small.
var concatLiftLimit = 8

// ConcatSeg concatenates pieces of one separator-free segment; such pieces are
// lifted together more eagerly (segments are short tokens).
func ConcatSeg(parts ...*Term) *Term {
	old := concatLiftLimit
	concatLiftLimit = 2048
	defer func() { concatLiftLimit = old }()
	return Concat(parts...)
}

func Concat(parts ...*Term) *Term {
	var flat []*Term
	for _, p := range parts {
		if p.sort != SStr {
			panic("Concat: non-string")
		}
		if p.op == OpConcat {
			flat = append(flat, p.args...)
		} else {
			flat = append(flat, p)
		}
	}
	// segmented strings absorb their neighbours
	hasSeg := false
	for _, p := range flat {
		if p.op == OpSegStr {
			hasSeg = true
		}
	}
	if hasSeg {
		var sep byte
		for _, p := range flat {
			if p.op == OpSegStr {
				sep = p.s[0]
			}
		}
		var acc *Term
		var pend []*Term // plain parts before the first SegStr / between
		flush := func() {
			if len(pend) == 0 {
				return
			}
			pl := Concat(pend...)
			pend = nil
			if isStrConst(pl) && pl.s == "" {
				return
			}
			if acc == nil {
				acc = toSegStr(pl, sep)
				if acc == nil {
					unsupported("concat: part before a segmented string may contain the separator")
				}
				return
			}
			acc = segCat(acc, pl)
		}
		for _, p := range flat {
			if p.op == OpSegStr {
				flush()
				if acc == nil {
					acc = p
				} else {
					acc = segCat(acc, p)
				}
			} else {
				pend = append(pend, p)
			}
		}
		flush()
		n, segs := segParts(acc)
		return mkSegStr(sep, n, segs)
	}
	var out []*Term
	for _, p := range flat {
		if isStrConst(p) && p.s == "" {
			continue
		}
		if n := len(out); n > 0 && out[n-1].Liftable() && p.Liftable() {
			a, b := out[n-1], p
			if (a.op == OpConst || b.op == OpConst) || len(casesOf(a))*len(casesOf(b)) <= concatLiftLimit {
				out[n-1] = lift(SStr, func(cs []*Term) *Term { return Str(cs[0].s + cs[1].s) }, a, b)
				continue
			}
		}
		out = append(out, p)
	}
	if len(out) == 0 {
		return Str("")
	}
	if len(out) == 1 {
		return out[0]
	}
	return mkApp(OpConcat, SStr, "", out...)
}

// noByte reports whether string term t provably does not contain byte c.
func noByte(t *Term, c byte) bool {
	switch t.op {
	case OpConst:
		return strings.IndexByte(t.s, c) < 0
	case OpCases:
		for _, k := range t.cases {
			if strings.IndexByte(k.V.s, c) >= 0 {
				return false
			}
		}
		return true
	case OpVar:
		return strings.IndexByte(t.noBytes, c) >= 0
	case OpConcat:
		for _, a := range t.args {
			if !noByte(a, c) {
				return false
			}
		}
		return true
	case OpSubstr:
		return noByte(t.args[0], c)
	case OpIte:
		return noByte(t.args[1], c) && noByte(t.args[2], c)
	case OpSegStr:
		if t.s[0] == c {
			return false
		}
		for _, a := range t.args[1:] {
			if !noByte(a, c) {
				return false
			}
		}
		return true
	}
	return false
}

// ---------------------------------------------------------------------------
// SegStr: string = Join(segs[0:n], sep), n >= 1, every segment sep-free.

func mkSegStr(sep byte, n *Term, segs []*Term) *Term {
	// constant n: plain concatenation
	if n.op == OpConst {
		var parts []*Term
		for i := 0; i < int(n.i); i++ {
			if i > 0 {
				parts = append(parts, Str(string(sep)))
			}
			parts = append(parts, segs[i])
		}
		return Concat(parts...)
	}
	// trim unused tail
	max := int64(0)
	for _, c := range casesOf(n) {
		if c.V.i > max {
			max = c.V.i
		}
	}
	segs = segs[:max]
	args := append([]*Term{n}, segs...)
	return mkApp(OpSegStr, SStr, string(sep), args...)
}

// splitConcat splits a non-SegStr string on sep into segments; ok=false when a
// part may contain sep in a non-constant way.
func splitConcat(t *Term, sep byte) ([]*Term, bool) {
	var parts []*Term
	if t.op == OpConcat {
		parts = t.args
	} else {
		parts = []*Term{t}
	}
	segs := []*Term{Str("")}
	for _, p := range parts {
		if isStrConst(p) {
			ss := strings.Split(p.s, string(sep))
			segs[len(segs)-1] = ConcatSeg(segs[len(segs)-1], Str(ss[0]))
			for _, s := range ss[1:] {
				segs = append(segs, Str(s))
			}
			continue
		}
		if noByte(p, sep) {
			segs[len(segs)-1] = ConcatSeg(segs[len(segs)-1], p)
			continue
		}
		if p.op == OpCases {
			// constants with separators: only if all have the same number of separators
			cnt := -1
			for _, k := range p.cases {
				c := strings.Count(k.V.s, string(sep))
				if cnt >= 0 && c != cnt {
					return nil, false
				}
				cnt = c
			}
			for j := 0; j <= cnt; j++ {
				jj := j
				piece := lift(SStr, func(cs []*Term) *Term { return Str(strings.Split(cs[0].s, string(sep))[jj]) }, p)
				if j == 0 {
					segs[len(segs)-1] = ConcatSeg(segs[len(segs)-1], piece)
				} else {
					segs = append(segs, piece)
				}
			}
			continue
		}
		return nil, false
	}
	return segs, true
}

func toSegStr(t *Term, sep byte) *Term {
	if t.op == OpSegStr {
		if t.s[0] == sep {
			return t
		}
		return nil
	}
	segs, ok := splitConcat(t, sep)
	if !ok {
		return nil
	}
	args := append([]*Term{BV(int64(len(segs)))}, segs...)
	return mkApp(OpSegStr, SStr, string(sep), args...) // raw (constant n) — only used transiently
}

func segParts(t *Term) (n *Term, segs []*Term) { return t.args[0], t.args[1:] }

// segStrAppend returns s ++ q for SegStr s.
func segStrAppend(s *Term, q *Term) *Term {
	sep := s.s[0]
	var qsegs []*Term
	var qn *Term
	if q.op == OpSegStr {
		if q.s[0] != sep {
			return nil
		}
		qn, qsegs = segParts(q)
		if qn.op != OpConst {
			return nil
		}
		qsegs = qsegs[:qn.i]
	} else {
		var ok bool
		qsegs, ok = splitConcat(q, sep)
		if !ok {
			return nil
		}
	}
	n, segs := segParts(s)
	max := 0
	for _, c := range casesOf(n) {
		if int(c.V.i) > max {
			max = int(c.V.i)
		}
	}
	out := make([]*Term, max+len(qsegs)-1)
	for i := range out {
		if i < len(segs) {
			out[i] = segs[i]
		} else {
			out[i] = Str("")
		}
	}
	for _, c := range casesOf(n) {
		L := int(c.V.i)
		if L < 1 {
			unsupported("segmented string with %d segments", L)
		}
		// last segment extended by first of q
		out[L-1] = Ite(c.G, ConcatSeg(getSeg(segs, L-1), qsegs[0]), out[L-1])
		for j := 1; j < len(qsegs); j++ {
			out[L-1+j] = Ite(c.G, qsegs[j], out[L-1+j])
		}
	}
	nn := BVBin(OpBVAdd, n, BV(int64(len(qsegs)-1)))
	return mkSegStr(sep, nn, out)
}

// segCat concatenates two strings, at least one side with a constant segment count.
func segCat(a, b *Term) *Term {
	sep := a.s[0]
	na, sa := segParts(a)
	if na.op == OpConst {
		var bs *Term
		if b.op == OpSegStr {
			bs = b
		} else {
			bs = toSegStr(b, sep)
		}
		if bs == nil || bs.s[0] != sep {
			unsupported("concat: cannot segment %v", b)
		}
		nb, sb := segParts(bs)
		k := int(na.i)
		out := make([]*Term, 0, k+len(sb))
		out = append(out, sa[:k-1]...)
		out = append(out, ConcatSeg(sa[k-1], getSeg(sb, 0)))
		if len(sb) > 1 {
			out = append(out, sb[1:]...)
		}
		n := BVBin(OpBVAdd, nb, BV(int64(k-1)))
		args := append([]*Term{n}, out...)
		return mkApp(OpSegStr, SStr, string(sep), args...)
	}
	r := segStrAppend(a, b)
	if r == nil {
		unsupported("concat: cannot append %v to a segmented string", b)
	}
	if r.op != OpSegStr {
		r = toSegStr(r, sep)
	}
	return r
}

func getSeg(segs []*Term, i int) *Term {
	if i < len(segs) {
		return segs[i]
	}
	return Str("")
}

func iteSegStr(c, a, b *Term) *Term {
	var sep byte = '/'
	if a.op == OpSegStr {
		sep = a.s[0]
	} else if b.op == OpSegStr {
		sep = b.s[0]
	}
	sa, sb := toSegStr(a, sep), toSegStr(b, sep)
	if sa == nil || sb == nil {
		return nil
	}
	na, ga := segParts(sa)
	nb, gb := segParts(sb)
	m := len(ga)
	if len(gb) > m {
		m = len(gb)
	}
	out := make([]*Term, m)
	for i := range out {
		out[i] = Ite(c, getSeg(ga, i), getSeg(gb, i))
	}
	return mkSegStr(sep, Ite(c, na, nb), out)
}

// JoinSlice builds Join(elems[0:n], sep) for a slice with liftable length.
func JoinSlice(elems []*Term, n *Term, sep string) *Term {
	if n.op == OpConst {
		var parts []*Term
		for i := 0; i < int(n.i); i++ {
			if i > 0 {
				parts = append(parts, Str(sep))
			}
			parts = append(parts, elems[i])
		}
		return Concat(parts...)
	}
	if !n.Liftable() || len(sep) != 1 {
		unsupported("strings.Join with symbolic length")
	}
	for _, e := range elems {
		if !noByte(e, sep[0]) {
			unsupported("strings.Join: element may contain separator")
		}
	}
	// n==0 -> [""] (n=1)
	segs := make([]*Term, len(elems))
	copy(segs, elems)
	var zero *Term = False
	for _, c := range casesOf(n) {
		if c.V.i == 0 {
			zero = c.G
		}
	}
	if !zero.IsFalse() {
		if len(segs) == 0 {
			segs = []*Term{Str("")}
		} else {
			segs[0] = Ite(zero, Str(""), segs[0])
		}
		n = Ite(zero, BV(1), n)
	}
	return mkSegStr(sep[0], n, segs)
}

// eqStr rewrites string equality structurally where possible; nil = no rewrite.
func eqStr(a, b *Term) *Term {
	if a.op == OpSegStr || b.op == OpSegStr {
		var sep byte
		if a.op == OpSegStr {
			sep = a.s[0]
		} else {
			sep = b.s[0]
		}
		sa, sb := toSegStr(a, sep), toSegStr(b, sep)
		if sa == nil || sb == nil {
			return nil
		}
		na, ga := segParts(sa)
		nb, gb := segParts(sb)
		conj := []*Term{Eq(na, nb)}
		m := len(ga)
		if len(gb) < m {
			m = len(gb)
		}
		for i := 0; i < m; i++ {
			used := BVBin(OpBVSLt, BV(int64(i)), na)
			conj = append(conj, Or(Not(used), Eq(ga[i], gb[i])))
		}
		return And(conj...)
	}
	// both plain: if both contain '/' separators in constant positions, compare segment-wise
	if a.op == OpConcat || b.op == OpConcat {
		for _, sep := range []byte{'/', ':'} {
			if hasConstSep(a, sep) || hasConstSep(b, sep) {
				sa, oka := splitConcat(a, sep)
				sb, okb := splitConcat(b, sep)
				if oka && okb {
					if len(sa) != len(sb) {
						return False
					}
					if len(sa) == 1 {
						continue
					}
					conj := make([]*Term, len(sa))
					for i := range sa {
						conj[i] = Eq(sa[i], sb[i])
					}
					return And(conj...)
				}
			}
		}
		// constant prefix/suffix stripping against a constant
		if isStrConst(b) && a.op == OpConcat {
			return eqConcatConst(a, b.s)
		}
		if isStrConst(a) && b.op == OpConcat {
			return eqConcatConst(b, a.s)
		}
	}
	return nil
}

func hasConstSep(t *Term, sep byte) bool {
	if isStrConst(t) {
		return strings.IndexByte(t.s, sep) >= 0
	}
	if t.op == OpConcat {
		for _, p := range t.args {
			if isStrConst(p) && strings.IndexByte(p.s, sep) >= 0 {
				return true
			}
		}
	}
	return false
}

func eqConcatConst(a *Term, s string) *Term {
	parts := a.args
	for len(parts) > 0 && isStrConst(parts[0]) {
		if !strings.HasPrefix(s, parts[0].s) {
			return False
		}
		s = s[len(parts[0].s):]
		parts = parts[1:]
	}
	for len(parts) > 0 && isStrConst(parts[len(parts)-1]) {
		p := parts[len(parts)-1].s
		if !strings.HasSuffix(s, p) {
			return False
		}
		s = s[:len(s)-len(p)]
		parts = parts[:len(parts)-1]
	}
	if len(parts) == len(a.args) {
		return nil
	}
	return Eq(Concat(parts...), Str(s))
}

// ---------------------------------------------------------------------------
// length

func StrLenInt(s *Term) *Term {
	if s.Liftable() {
		return lift(SInt, func(cs []*Term) *Term { return IntC(int64(len(cs[0].s))) }, s)
	}
	return mkApp(OpStrLen, SInt, "", s)
}

func StrLenBV(s *Term) *Term {
	if s.Liftable() {
		return lift(SBV, func(cs []*Term) *Term { return BV(int64(len(cs[0].s))) }, s)
	}
	if s.op == OpIte {
		return Ite(s.args[0], StrLenBV(s.args[1]), StrLenBV(s.args[2]))
	}
	return mkApp(OpInt2BV, SBV, "", StrLenInt(s))
}

func IntBin(op Op, a, b *Term) *Term {
	rs := SInt
	if op == OpIntLt || op == OpIntLe {
		rs = SBool
	}
	if allLiftable(a, b) {
		return lift(rs, func(cs []*Term) *Term {
			x, y := cs[0].i, cs[1].i
			switch op {
			case OpIntAdd:
				return IntC(x + y)
			case OpIntSub:
				return IntC(x - y)
			case OpIntLt:
				return Bool(x < y)
			case OpIntLe:
				return Bool(x <= y)
			}
			panic("IntBin")
		}, a, b)
	}
	return mkApp(op, rs, "", a, b)
}

func Substr(s, off, n *Term) *Term { return mkApp(OpSubstr, SStr, "", s, off, n) }
func IndexOf(s, t, from *Term) *Term {
	return mkApp(OpIndexOf, SInt, "", s, t, from)
}
