package main

// SMT-LIB2 emission and solver processes.

import (
	"os"
	"regexp"
	"bufio"
	"fmt"
	"io"
	"os/exec"
	"sort"
	"strconv"
	"strings"
	"sync"
	"time"
)

func sortSMT(s Sort) string {
	switch s {
	case SBool:
		return "Bool"
	case SBV:
		return "(_ BitVec 64)"
	case SInt:
		return "Int"
	case SStr:
		return "String"
	case SFP:
		return "(_ FloatingPoint 11 53)"
	}
	panic("sortSMT: " + s.String())
}

func smtStr(s string) string {
	var sb strings.Builder
	sb.WriteByte('"')
	for i := 0; i < len(s); i++ {
		c := s[i]
		switch {
		case c == '"':
			sb.WriteString(`""`)
		case c == '\\':
			sb.WriteString(`\u{5c}`)
		case c >= 0x20 && c < 0x7f:
			sb.WriteByte(c)
		default:
			fmt.Fprintf(&sb, `\u{%x}`, c)
		}
	}
	sb.WriteByte('"')
	return sb.String()
}

func smtBV(i int64) string {
	if i >= 0 {
		return "(_ bv" + strconv.FormatInt(i, 10) + " 64)"
	}
	return "(_ bv" + strconv.FormatUint(uint64(i), 10) + " 64)"
}

func smtInt(i int64) string {
	if i >= 0 {
		return strconv.FormatInt(i, 10)
	}
	return "(- " + strconv.FormatInt(-i, 10) + ")"
}

func smtFP(b uint64) string {
	return fmt.Sprintf("(fp #b%01b #b%011b #b%052b)", b>>63, (b>>52)&0x7ff, b&((1<<52)-1))
}

func smtVarName(n string) string { return "|" + strings.NewReplacer("|", "_", "\\", "_").Replace(n) + "|" }

// cut variables: an atom g_k of a registered partition P (mutually exclusive guards of one lifted
// value) is emitted as (= pidx_P k) together with the constraint (= (= pidx_P k) <definition of g_k>).
// Exclusivity then is structural for the solver, which can decide obligations that only depend on
// "which case of the lifted value" without re-deriving it from the inputs.
var useCuts = os.Getenv("SYMGO_CUTS") != ""

func cutAtom(t *Term) (pid int, idx int32, ok bool) {
	if !useCuts || t.op == OpConst {
		return 0, 0, false
	}
	for _, p := range t.ps {
		if len(p.idx) != 1 {
			continue
		}
		atoms := partitions[p.pid]
		if len(atoms) < 4 || atoms[p.idx[0]] != t {
			continue
		}
		if _, _, isEq := eqAtom(t); isEq {
			continue
		}
		return p.pid, p.idx[0], true
	}
	return 0, 0, false
}

type Emitter struct {
	theory  bool // something other than Bool / bit-vectors was emitted (strings, integers, floats, UF)
	declCut map[int]bool
	defined map[int]bool
	sb      strings.Builder
	declVar map[int]bool
	declUF  map[string]bool
}

func newEmitter() *Emitter {
	return &Emitter{defined: map[int]bool{}, declVar: map[int]bool{}, declUF: map[string]bool{}, declCut: map[int]bool{}}
}

func (e *Emitter) ref(t *Term) string {
	switch t.op {
	case OpConst:
		switch t.sort {
		case SBool:
			if t.b {
				return "true"
			}
			return "false"
		case SBV:
			return smtBV(t.i)
		case SInt:
			return smtInt(t.i)
		case SStr:
			return smtStr(t.s)
		case SFP:
			return smtFP(t.f)
		}
		panic("ref: rational constant reached the solver")
	case OpVar:
		return smtVarName(t.s)
	}
	if _, _, ok := cutAtom(t); ok {
		return "c" + strconv.Itoa(t.id)
	}
	return "t" + strconv.Itoa(t.id)
}

// Define emits definitions for t and everything below it (iteratively).
func (e *Emitter) Define(root *Term) {
	type frame struct {
		t *Term
		i int
	}
	stack := []frame{{root, 0}}
	for len(stack) > 0 {
		f := &stack[len(stack)-1]
		t := f.t
		if t.op == OpConst || e.defined[t.id] {
			stack = stack[:len(stack)-1]
			continue
		}
		if t.op == OpVar {
			if t.sort != SBool && t.sort != SBV {
				e.theory = true
			}
			if !e.declVar[t.id] {
				e.declVar[t.id] = true
				fmt.Fprintf(&e.sb, "(declare-const %s %s)\n", smtVarName(t.s), sortSMT(t.sort))
			}
			e.defined[t.id] = true
			stack = stack[:len(stack)-1]
			continue
		}
		kids := t.args
		if t.op == OpCases {
			// children: guards and values
			if f.i < 2*len(t.cases) {
				c := t.cases[f.i/2]
				k := c.G
				if f.i%2 == 1 {
					k = c.V
				}
				f.i++
				if k.op != OpConst && !e.defined[k.id] {
					stack = append(stack, frame{k, 0})
				}
				continue
			}
		} else if f.i < len(kids) {
			k := kids[f.i]
			f.i++
			if k.op != OpConst && !e.defined[k.id] {
				stack = append(stack, frame{k, 0})
			}
			continue
		}
		e.emitDef(t)
		e.defined[t.id] = true
		stack = stack[:len(stack)-1]
	}
}

func (e *Emitter) emitDef(t *Term) {
	if t.sort != SBool && t.sort != SBV {
		e.theory = true
	}
	switch t.op {
	case OpInt2BV, OpUF, OpFPToInt, OpFPLt, OpFPLe, OpFPEq, OpFPIsNaN, OpIntLt, OpIntLe:
		e.theory = true
	case OpEq:
		if t.args[0].sort != SBool && t.args[0].sort != SBV {
			e.theory = true
		}
	}
	fmt.Fprintf(&e.sb, "(define-fun t%d () %s %s)\n", t.id, sortSMT(t.sort), e.body(t))
	if pid, idx, ok := cutAtom(t); ok {
		if !e.declCut[pid] {
			e.declCut[pid] = true
			fmt.Fprintf(&e.sb, "(declare-const pidx%d Int)\n", pid)
		}
		fmt.Fprintf(&e.sb, "(define-fun c%d () Bool (= pidx%d %d))\n(assert (= c%d t%d))\n", t.id, pid, idx, t.id, t.id)
	}
}

func (e *Emitter) nary(name string, args []*Term) string {
	var sb strings.Builder
	sb.WriteString("(" + name)
	for _, a := range args {
		sb.WriteByte(' ')
		sb.WriteString(e.ref(a))
	}
	sb.WriteByte(')')
	return sb.String()
}

func (e *Emitter) intSide(t *Term) (string, bool) {
	// returns an Int-sorted rendering of a BV term that is int2bv(x) or a non-negative constant
	if t.op == OpInt2BV {
		return e.ref(t.args[0]), true
	}
	if t.op == OpConst && t.sort == SBV && t.i >= 0 {
		return smtInt(t.i), true
	}
	return "", false
}

func (e *Emitter) body(t *Term) string {
	a := t.args
	switch t.op {
	case OpCases:
		var sb strings.Builder
		n := len(t.cases)
		for i, c := range t.cases {
			if i == n-1 {
				sb.WriteString(e.ref(c.V))
			} else {
				sb.WriteString("(ite " + e.ref(c.G) + " " + e.ref(c.V) + " ")
			}
		}
		sb.WriteString(strings.Repeat(")", n-1))
		return sb.String()
	case OpAnd:
		return e.nary("and", a)
	case OpOr:
		return e.nary("or", a)
	case OpNot:
		return e.nary("not", a)
	case OpIte:
		return e.nary("ite", a)
	case OpEq:
		if a[0].op == OpInt2BV || a[1].op == OpInt2BV {
			x, okx := e.intSide(a[0])
			y, oky := e.intSide(a[1])
			if okx && oky {
				return "(= " + x + " " + y + ")"
			}
		}
		return e.nary("=", a)
	case OpBVSLt, OpBVSLe:
		if a[0].op == OpInt2BV || a[1].op == OpInt2BV {
			x, okx := e.intSide(a[0])
			y, oky := e.intSide(a[1])
			if okx && oky {
				if t.op == OpBVSLt {
					return "(< " + x + " " + y + ")"
				}
				return "(<= " + x + " " + y + ")"
			}
		}
		return e.nary(opNames[t.op], a)
	case OpBVAdd, OpBVSub, OpBVMul, OpBVSDiv, OpBVSRem, OpBVNeg, OpBVAnd, OpBVOr, OpBVXor, OpBVShl, OpBVAshr, OpBVLshr,
		OpIntAdd, OpIntSub, OpIntLt, OpIntLe, OpSubstr, OpIndexOf, OpStrLen, OpStrToInt:
		return e.nary(opNames[t.op], a)
	case OpConcat:
		return e.nary("str.++", a)
	case OpInt2BV:
		return "((_ int2bv 64) " + e.ref(a[0]) + ")"
	case OpSegStr:
		n, segs := a[0], a[1:]
		sep := smtStr(t.s)
		join := func(L int) string {
			if L == 1 {
				return e.ref(segs[0])
			}
			var sb strings.Builder
			sb.WriteString("(str.++")
			for i := 0; i < L; i++ {
				if i > 0 {
					sb.WriteString(" " + sep)
				}
				sb.WriteString(" " + e.ref(segs[i]))
			}
			sb.WriteString(")")
			return sb.String()
		}
		cs := casesOf(n)
		var sb strings.Builder
		for i, c := range cs {
			if i == len(cs)-1 {
				sb.WriteString(join(int(c.V.i)))
			} else {
				sb.WriteString("(ite " + e.ref(c.G) + " " + join(int(c.V.i)) + " ")
			}
		}
		sb.WriteString(strings.Repeat(")", len(cs)-1))
		return sb.String()
	case OpFPAdd:
		return "(fp.add RNE " + e.ref(a[0]) + " " + e.ref(a[1]) + ")"
	case OpFPSub:
		return "(fp.sub RNE " + e.ref(a[0]) + " " + e.ref(a[1]) + ")"
	case OpFPMul:
		return "(fp.mul RNE " + e.ref(a[0]) + " " + e.ref(a[1]) + ")"
	case OpFPDiv:
		return "(fp.div RNE " + e.ref(a[0]) + " " + e.ref(a[1]) + ")"
	case OpFPNeg:
		return "(fp.neg " + e.ref(a[0]) + ")"
	case OpFPLt:
		return e.nary("fp.lt", a)
	case OpFPLe:
		return e.nary("fp.leq", a)
	case OpFPEq:
		return e.nary("fp.eq", a)
	case OpFPIsNaN:
		return e.nary("fp.isNaN", a)
	case OpFPRound:
		return "(fp.roundToIntegral RNA " + e.ref(a[0]) + ")"
	case OpFPFloor:
		return "(fp.roundToIntegral RTN " + e.ref(a[0]) + ")"
	case OpFPMin:
		x, y := e.ref(a[0]), e.ref(a[1])
		// Go math.Min: NaN if either is NaN; -0 < +0
		return fmt.Sprintf("(ite (or (fp.isNaN %s) (fp.isNaN %s)) (_ NaN 11 53) (ite (fp.lt %s %s) %s (ite (fp.lt %s %s) %s (ite (fp.isNegative %s) %s %s))))",
			x, y, x, y, x, y, x, y, x, x, y)
	case OpFPToInt:
		return "((_ fp.to_sbv 64) RTZ " + e.ref(a[0]) + ")"
	case OpFPFromBV:
		return "((_ to_fp 11 53) RNE " + e.ref(a[0]) + ")"
	case OpUF:
		if t.s == "bytesOnly" {
			return "(str.in_re " + e.ref(a[0]) + " (re.* (re.range \"\\u{0}\" \"\\u{ff}\")))"
		}
		if !e.declUF[t.s] {
			e.declUF[t.s] = true
			sig := TS.ufs[t.s]
			var ss []string
			for _, s := range sig.args {
				ss = append(ss, sortSMT(s))
			}
			// declaration must precede this define-fun: emit it right here (we are between definitions)
			fmt.Fprintf(&e.sb, "(declare-fun %s (%s) %s)\n", smtVarName(t.s), strings.Join(ss, " "), sortSMT(sig.res))
		}
		if len(a) == 0 {
			return smtVarName(t.s)
		}
		return e.nary(smtVarName(t.s), a)
	}
	panic(fmt.Sprintf("emit: op %d", t.op))
}

// ---------------------------------------------------------------------------
// solver processes

type SolverKind struct {
	Name string
	Cmd  []string
}

var solverKinds = map[string]SolverKind{
	"z3new": {"z3new", []string{"z3-new", "-in", "-smt2"}},
	"z3":    {"z3", []string{"z3", "-in", "-smt2"}},
	"cvc5":  {"cvc5", []string{"cvc5", "--incremental", "--lang=smt2", "--produce-models", "--strings-exp"}},
}

type Solver struct {
	kind  SolverKind
	cmd   *exec.Cmd
	in    io.WriteCloser
	out   *bufio.Reader
	seq   int
	dead  bool
	lines chan string
}

func startSolver(kind string) (*Solver, error) {
	k := solverKinds[kind]
	cmd := exec.Command(k.Cmd[0], k.Cmd[1:]...)
	in, err := cmd.StdinPipe()
	if err != nil {
		return nil, err
	}
	outp, err := cmd.StdoutPipe()
	if err != nil {
		return nil, err
	}
	cmd.Stderr = cmd.Stdout
	if err := cmd.Start(); err != nil {
		return nil, err
	}
	s := &Solver{kind: k, cmd: cmd, in: in, out: bufio.NewReaderSize(outp, 1<<20), lines: make(chan string, 1024)}
	go func() {
		for {
			line, err := s.out.ReadString('\n')
			if len(line) > 0 {
				s.lines <- strings.TrimRight(line, "\r\n")
			}
			if err != nil {
				close(s.lines)
				return
			}
		}
	}()
	return s, nil
}

func (s *Solver) Kill() {
	if s == nil || s.dead {
		return
	}
	s.dead = true
	s.in.Close()
	s.cmd.Process.Kill()
	go s.cmd.Wait()
}

// send writes text and waits for the echo marker; returns output lines.
func (s *Solver) send(text string, wall time.Duration) ([]string, error) {
	if s.dead {
		return nil, fmt.Errorf("solver dead")
	}
	s.seq++
	marker := fmt.Sprintf("<<done-%d>>", s.seq)
	go func() {
		io.WriteString(s.in, text)
		io.WriteString(s.in, "\n(echo \""+marker+"\")\n")
	}()
	var lines []string
	timer := time.NewTimer(wall)
	defer timer.Stop()
	for {
		select {
		case l, ok := <-s.lines:
			if !ok {
				s.dead = true
				return lines, fmt.Errorf("solver exited")
			}
			if strings.Contains(l, marker) {
				return lines, nil
			}
			if l != "" {
				lines = append(lines, l)
			}
		case <-timer.C:
			s.Kill()
			return lines, fmt.Errorf("wall timeout")
		}
	}
}

type Verdict int

const (
	VUnsat Verdict = iota
	VSat
	VUnknown
	VError
)

func (v Verdict) String() string { return [...]string{"unsat", "sat", "unknown", "error"}[v] }

type QueryResult struct {
	Verdict Verdict
	Model   map[string]string // var name -> raw SMT value
	Secs    float64
	Raw     string
}

func parseVerdict(lines []string) (Verdict, string) {
	v := VUnknown
	seen := false
	for _, l := range lines {
		if strings.Contains(l, "(error") || strings.HasPrefix(l, "Error") || strings.Contains(l, "Parse Error") {
			return VError, l
		}
	}
	for _, l := range lines {
		switch strings.TrimSpace(l) {
		case "unsat":
			v, seen = VUnsat, true
		case "sat":
			v, seen = VSat, true
		case "unknown", "timeout":
			v, seen = VUnknown, true
		}
		if seen {
			break
		}
	}
	if !seen {
		return VError, strings.Join(lines, " / ")
	}
	return v, ""
}

// parseModel parses the output of (get-value (...)).
func parseModel(text string) map[string]string {
	m := map[string]string{}
	toks := sexpTokens(text)
	// expect ( ( name value ) ( name value ) ... )
	pos := 0
	var parse func() interface{}
	parse = func() interface{} {
		if pos >= len(toks) {
			return nil
		}
		t := toks[pos]
		pos++
		if t == "(" {
			var l []interface{}
			for pos < len(toks) && toks[pos] != ")" {
				l = append(l, parse())
			}
			pos++
			return l
		}
		return t
	}
	var flat func(x interface{}) string
	flat = func(x interface{}) string {
		switch v := x.(type) {
		case string:
			return v
		case []interface{}:
			var ss []string
			for _, y := range v {
				ss = append(ss, flat(y))
			}
			return "(" + strings.Join(ss, " ") + ")"
		}
		return ""
	}
	for pos < len(toks) {
		top := parse()
		l, ok := top.([]interface{})
		if !ok {
			continue
		}
		for _, pr := range l {
			p, ok := pr.([]interface{})
			if !ok || len(p) != 2 {
				continue
			}
			name, ok := p[0].(string)
			if !ok {
				continue
			}
			name = strings.Trim(name, "|")
			m[name] = flat(p[1])
		}
	}
	return m
}

func sexpTokens(s string) []string {
	var toks []string
	i := 0
	for i < len(s) {
		c := s[i]
		switch {
		case c == '(' || c == ')':
			toks = append(toks, string(c))
			i++
		case c == ' ' || c == '\n' || c == '\t' || c == '\r':
			i++
		case c == '"':
			j := i + 1
			for j < len(s) {
				if s[j] == '"' {
					if j+1 < len(s) && s[j+1] == '"' {
						j += 2
						continue
					}
					break
				}
				j++
			}
			toks = append(toks, s[i:j+1])
			i = j + 1
		case c == '|':
			j := strings.IndexByte(s[i+1:], '|')
			toks = append(toks, s[i:i+j+2])
			i = i + j + 2
		default:
			j := i
			for j < len(s) && !strings.ContainsRune("() \n\t\r", rune(s[j])) {
				j++
			}
			toks = append(toks, s[i:j])
			i = j
		}
	}
	return toks
}

// decode raw SMT values
func smtValBV(v string) (int64, bool) {
	v = strings.TrimSpace(v)
	if strings.HasPrefix(v, "#x") {
		u, err := strconv.ParseUint(v[2:], 16, 64)
		return int64(u), err == nil
	}
	if strings.HasPrefix(v, "#b") {
		u, err := strconv.ParseUint(v[2:], 2, 64)
		return int64(u), err == nil
	}
	if strings.HasPrefix(v, "(_ bv") {
		f := strings.Fields(v[5:])
		u, err := strconv.ParseUint(f[0], 10, 64)
		return int64(u), err == nil
	}
	return 0, false
}

func smtValStr(v string) (string, bool) {
	v = strings.TrimSpace(v)
	if len(v) < 2 || v[0] != '"' {
		return "", false
	}
	body := strings.ReplaceAll(v[1:len(v)-1], `""`, `"`)
	var out []byte
	for i := 0; i < len(body); {
		if strings.HasPrefix(body[i:], `\u{`) {
			j := strings.IndexByte(body[i:], '}')
			n, err := strconv.ParseUint(body[i+3:i+j], 16, 32)
			if err != nil {
				return "", false
			}
			out = append(out, byte(n)) // one SMT char per Go byte (chars <= 0xFF assumed)
			i += j + 1
			continue
		}
		if strings.HasPrefix(body[i:], `\u`) && i+6 <= len(body) {
			n, err := strconv.ParseUint(body[i+2:i+6], 16, 32)
			if err == nil {
				out = append(out, byte(n))
				i += 6
				continue
			}
		}
		if strings.HasPrefix(body[i:], `\x`) && i+4 <= len(body) {
			n, err := strconv.ParseUint(body[i+2:i+4], 16, 32)
			if err == nil {
				out = append(out, byte(n))
				i += 4
				continue
			}
		}
		out = append(out, body[i])
		i++
	}
	return string(out), true
}

func smtValFP(v string) (uint64, bool) {
	v = strings.TrimSpace(v)
	if strings.HasPrefix(v, "(fp ") {
		f := strings.Fields(strings.Trim(v[3:], "() "))
		if len(f) != 3 {
			return 0, false
		}
		var bits uint64
		for i, w := range []int{1, 11, 52} {
			x := strings.Trim(f[i], "()")
			var u uint64
			var err error
			if strings.HasPrefix(x, "#b") {
				u, err = strconv.ParseUint(x[2:], 2, 64)
			} else if strings.HasPrefix(x, "#x") {
				u, err = strconv.ParseUint(x[2:], 16, 64)
			} else {
				return 0, false
			}
			if err != nil {
				return 0, false
			}
			bits = bits<<uint(w) | u
		}
		return bits, true
	}
	switch {
	case strings.Contains(v, "+zero"):
		return 0, true
	case strings.Contains(v, "-zero"):
		return 1 << 63, true
	case strings.Contains(v, "+oo"):
		return 0x7ff0000000000000, true
	case strings.Contains(v, "-oo"):
		return 0xfff0000000000000, true
	case strings.Contains(v, "NaN"):
		return 0x7ff8000000000001, true
	}
	return 0, false
}

// ---------------------------------------------------------------------------
// query batches

type Obligation struct {
	Name    string
	Kind    string  // "assert", "panic", "unwind", "reach", "assume-sat"
	Formula *Term   // formula whose satisfiability is asked
	Expect  Verdict // VUnsat for assertions, VSat for reachability witnesses
	// results
	Results map[string]QueryResult
	Trivial bool // decided syntactically (formula folded to a constant)
}

type Batch struct {
	Name        string
	Assumptions []*Term
	Obls        []*Obligation
	ModelVars   []*Term
}

type SolverPool struct {
	mu      sync.Mutex
	timeSec map[string]float64
	queries map[string]int
}

var Pool = &SolverPool{timeSec: map[string]float64{}, queries: map[string]int{}}

func (p *SolverPool) note(kind string, secs float64) {
	p.mu.Lock()
	p.timeSec[kind] += secs
	p.queries[kind]++
	p.mu.Unlock()
}

var defRe = regexp.MustCompile(`(?m)^\(define-fun (t[0-9]+) \(\) (Bool|\(_ BitVec 64\)) (.*)\)$`)

// runBatch discharges the obligations of b with the given solvers, in parallel chunks.
func runBatch(b *Batch, solvers []string, capSec int, workers int) {
	var pend []*Obligation
	for _, o := range b.Obls {
		o.Results = map[string]QueryResult{}
		if o.Formula.op == OpConst {
			o.Trivial = true
			v := VUnsat
			if o.Formula.b {
				v = VSat
			}
			o.Results["syntactic"] = QueryResult{Verdict: v}
			continue
		}
		pend = append(pend, o)
	}
	if len(pend) == 0 {
		return
	}
	nchunks := workers
	if nchunks > len(pend) {
		nchunks = len(pend)
	}
	chunks := make([][]*Obligation, nchunks)
	for i, o := range pend {
		chunks[i%nchunks] = append(chunks[i%nchunks], o)
	}
	// text generation is sequential (term store is not thread-safe for creation, reading is fine)
	type job struct {
		propositional bool
		prelude string
		obls    []*Obligation
		qs      []string
	}
	var jobs []job
	for _, ch := range chunks {
		em := newEmitter()
		for _, a := range b.Assumptions {
			em.Define(a)
		}
		for _, v := range b.ModelVars {
			em.Define(v)
		}
		for _, o := range ch {
			em.Define(o.Formula)
		}
		for _, a := range b.Assumptions {
			fmt.Fprintf(&em.sb, "(assert %s)\n", em.ref(a))
		}
		j := job{prelude: em.sb.String(), obls: ch, propositional: !em.theory}
		var mv []string
		for _, v := range b.ModelVars {
			mv = append(mv, em.ref(v))
		}
		for _, o := range ch {
			q := "(push 1)\n(assert " + em.ref(o.Formula) + ")\n(check-sat)\n"
			if j.propositional {
				q = "(push 1)\n(assert " + em.ref(o.Formula) + ")\n<<CHECK>>\n"
			}
			j.qs = append(j.qs, q)
		}
		_ = mv
		jobs = append(jobs, j)
	}
	var mvNames []string
	for _, v := range b.ModelVars {
		mvNames = append(mvNames, smtVarName(v.s))
	}
	var mu sync.Mutex
	runPhase := func(sks []string) {
		var wg sync.WaitGroup
		for _, jb := range jobs {
			for _, sk := range sks {
				wg.Add(1)
				go func(jb job, sk string) {
					defer wg.Done()
					qs := jb.qs
					if jb.propositional {
						qs = make([]string, len(jb.qs))
						for i, q := range jb.qs {
							if sk == "z3new" || sk == "z3" {
								// pure Bool / bit-vector query: bit-blast and hand it to the SAT core
								qs[i] = strings.Replace(q, "<<CHECK>>", "(check-sat-using (try-for (then simplify bit-blast sat) <<MS>>))", 1)
							} else {
								qs[i] = strings.Replace(q, "<<CHECK>>", "(check-sat)", 1)
							}
						}
					}
					prelude := jb.prelude
					if jb.propositional && (sk == "z3new" || sk == "z3") {
						// z3 expands define-fun macros when a formula is asserted, which is pathologically slow on
						// heavily shared DAGs; give it definitional constraints instead
						prelude = defRe.ReplaceAllString(prelude, "(declare-const $1 $2)\n(assert (= $1 $3))")
					}
					runJob(prelude, jb.obls, qs, sk, capSec, mvNames, &mu)
				}(jb, sk)
			}
		}
		wg.Wait()
	}
	// phase 1: the primary solver decides; phase 2: the other solvers confirm, each obligation with a
	// grace period proportional to the primary's time (full cap where the primary did not decide)
	runPhase(solvers[:1])
	if len(solvers) > 1 {
		runPhase(solvers[1:])
	}
}

func solverPrelude(kind string, capSec int) string {
	switch kind {
	case "cvc5":
		return fmt.Sprintf("(set-option :tlimit-per %d)\n(set-logic ALL)\n", capSec*1000)
	default:
		return fmt.Sprintf("(set-option :timeout %d)\n", capSec*1000)
	}
}

func runJob(prelude string, obls []*Obligation, qs []string, kind string, capSec int, mvNames []string, mu *sync.Mutex) {
	var s *Solver
	restart := func() bool {
		if s != nil {
			s.Kill()
		}
		var err error
		s, err = startSolver(kind)
		if err != nil {
			return false
		}
		if d := os.Getenv("SYMGO_DUMP"); d != "" {
			os.WriteFile(fmt.Sprintf("%s/q-%s-%d.smt2", d, kind, time.Now().UnixNano()), []byte(solverPrelude(kind, capSec)+prelude+strings.Join(qs, "\n(pop 1)\n")), 0o644)
		}
		lines, err := s.send(solverPrelude(kind, capSec)+prelude, time.Duration(capSec+60)*time.Second)
		if err != nil {
			return false
		}
		for _, l := range lines {
			if strings.Contains(l, "(error") {
				mu.Lock()
				for _, o := range obls {
					if _, ok := o.Results[kind]; !ok {
						o.Results[kind] = QueryResult{Verdict: VError, Raw: "prelude: " + l}
					}
				}
				mu.Unlock()
				return false
			}
		}
		return true
	}
	if !restart() {
		mu.Lock()
		for _, o := range obls {
			if _, ok := o.Results[kind]; !ok {
				o.Results[kind] = QueryResult{Verdict: VError, Raw: "solver start/prelude failed"}
			}
		}
		mu.Unlock()
		return
	}
	defer func() { s.Kill() }()
	for i, o := range obls {
		// portfolio: when another solver has already decided this obligation, this one only gets a
		// short grace period (the verdicts are still compared when it answers in time)
		thisCap := capSec
		mu.Lock()
		for k, r := range o.Results {
			if k != kind && (r.Verdict == VSat || r.Verdict == VUnsat) {
				g := int(3*r.Secs) + 5
				if g < thisCap {
					thisCap = g
				}
			}
		}
		mu.Unlock()
		capCmd := fmt.Sprintf("(set-option :timeout %d)\n", thisCap*1000)
		if kind == "cvc5" {
			capCmd = fmt.Sprintf("(set-option :tlimit-per %d)\n", thisCap*1000)
		}
		t0 := time.Now()
		lines, err := s.send(capCmd+strings.Replace(qs[i], "<<MS>>", fmt.Sprint(thisCap*1000), 1), time.Duration(thisCap+20)*time.Second)
		secs := time.Since(t0).Seconds()
		var res QueryResult
		res.Secs = secs
		if err != nil {
			res.Verdict = VUnknown
			res.Raw = err.Error()
			mu.Lock()
			o.Results[kind] = res
			mu.Unlock()
			Pool.note(kind, secs)
			if !restart() {
				mu.Lock()
				for _, o2 := range obls[i+1:] {
					o2.Results[kind] = QueryResult{Verdict: VError, Raw: "solver restart failed"}
				}
				mu.Unlock()
				return
			}
			continue
		}
		v, raw := parseVerdict(lines)
		res.Verdict, res.Raw = v, raw
		if v == VSat && len(mvNames) > 0 {
			ml, err := s.send("(get-value ("+strings.Join(mvNames, " ")+"))", 60*time.Second)
			if err == nil {
				res.Model = parseModel(strings.Join(ml, "\n"))
			}
		}
		s.send("(pop 1)", 30*time.Second)
		mu.Lock()
		o.Results[kind] = res
		mu.Unlock()
		Pool.note(kind, secs)
	}
}

// sortedKeys helper
func sortedKeys(m map[string]QueryResult) []string {
	var ks []string
	for k := range m {
		ks = append(ks, k)
	}
	sort.Strings(ks)
	return ks
}

// enumerateModels lists all models of (assumptions ∧ formula) projected on vars
// (bit-vector / Bool variables only), by iterated blocking clauses.
func enumerateModels(b *Batch, formula *Term, vars []*Term, kind string, capSec int, limit int) ([]map[string]string, bool) {
	em := newEmitter()
	for _, a := range b.Assumptions {
		em.Define(a)
	}
	for _, v := range vars {
		em.Define(v)
	}
	em.Define(formula)
	for _, a := range b.Assumptions {
		fmt.Fprintf(&em.sb, "(assert %s)\n", em.ref(a))
	}
	fmt.Fprintf(&em.sb, "(assert %s)\n", em.ref(formula))
	s, err := startSolver(kind)
	if err != nil {
		return nil, false
	}
	defer s.Kill()
	if _, err := s.send(solverPrelude(kind, capSec)+em.sb.String(), time.Duration(capSec+60)*time.Second); err != nil {
		return nil, false
	}
	var names []string
	for _, v := range vars {
		names = append(names, smtVarName(v.s))
	}
	var out []map[string]string
	for len(out) < limit {
		lines, err := s.send("(check-sat)", time.Duration(capSec+20)*time.Second)
		if err != nil {
			return out, false
		}
		v, _ := parseVerdict(lines)
		if v == VUnsat {
			return out, true
		}
		if v != VSat {
			return out, false
		}
		ml, err := s.send("(get-value ("+strings.Join(names, " ")+"))", 60*time.Second)
		if err != nil {
			return out, false
		}
		m := parseModel(strings.Join(ml, "\n"))
		out = append(out, m)
		var sb strings.Builder
		sb.WriteString("(assert (or")
		for _, vr := range vars {
			fmt.Fprintf(&sb, " (not (= %s %s))", smtVarName(vr.s), m[vr.s])
		}
		sb.WriteString("))")
		if _, err := s.send(sb.String(), 30*time.Second); err != nil {
			return out, false
		}
	}
	return out, false
}
