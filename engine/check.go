package main

// `symgo check`: run all harnesses of a property, replay counterexamples
// natively, apply the known-findings file, print the protocol lines, write
// the evidence file and set the exit status.

import (
	"math"
	"math/rand"
	"sync"
	"encoding/json"
	"flag"
	"fmt"
	"os"
	"os/exec"
	"path/filepath"
	"sort"
	"strconv"
	"strings"
	"time"
)

type KnownFinding struct {
	Property string `json:"property"`
	Kind     string `json:"kind"` // known | fixed
	ID       string `json:"id"`   // assertion message prefix "KF:<id>"
	Site     string `json:"site"`
	What     string `json:"what"`
	Commit   string `json:"commit,omitempty"`
	Inputs   []string `json:"inputs,omitempty"` // complete list of failing inputs (when enumerable); any other failing input is a violation
}

func modelKey(m map[string]interface{}) string {
	var ks []string
	for k := range m {
		if strings.HasSuffix(k, "$text") {
			continue
		}
		ks = append(ks, k)
	}
	sort.Strings(ks)
	var parts []string
	for _, k := range ks {
		if t, ok := m[k+"$text"]; ok {
			parts = append(parts, fmt.Sprintf("%s=%v", k, t))
		} else {
			parts = append(parts, fmt.Sprintf("%s=%v", k, m[k]))
		}
	}
	return strings.Join(parts, ",")
}

func loadKnown(path string) []KnownFinding {
	b, err := os.ReadFile(path)
	if err != nil {
		return nil
	}
	var kf []KnownFinding
	if err := json.Unmarshal(b, &kf); err != nil {
		fatal("parse %s: %v", path, err)
	}
	return kf
}

type ReplayDoc struct {
	Property  string                 `json:"property"`
	Harness   string                 `json:"harness"`
	Pkg       string                 `json:"pkg"`
	Assertion string                 `json:"assertion"`
	Kind      string                 `json:"kind"`
	Values    map[string]interface{} `json:"values"`
	Native    string                 `json:"native_result,omitempty"`
}

func (w *World) writeReplayTestFiles(workdir string) (overlayPath string) {
	os.MkdirAll(workdir, 0o755)
	repl := map[string]string{}
	for vp, rp := range w.overlay {
		repl[vp] = rp
		if b, ok := w.pruned[vp]; ok {
			fn := filepath.Join(workdir, "pruned_"+strings.ReplaceAll(strings.TrimPrefix(vp, w.repo+"/"), "/", "_"))
			os.WriteFile(fn, b, 0o644)
			repl[vp] = fn
		}
	}
	// one generated _test.go per package with harnesses
	for rel, p := range w.pkgs {
		var names []string
		for name := range p.Members {
			if strings.HasPrefix(name, "VH_") {
				if f := p.Func(name); f != nil && len(f.Params) == 0 {
					names = append(names, name)
				}
			}
		}
		if len(names) == 0 {
			continue
		}
		sort.Strings(names)
		var sb strings.Builder
		fmt.Fprintf(&sb, "package %s\n\nimport (\n\t\"os\"\n\t\"testing\"\n\tvrt \"%s\"\n)\n\n", p.Pkg.Name(), vrtPath)
		sb.WriteString("var zzVerifTable = map[string]func(){\n")
		for _, n := range names {
			fmt.Fprintf(&sb, "\t%q: %s,\n", n, n)
		}
		sb.WriteString("}\n\nfunc TestVerifReplay(t *testing.T) {\n\tf := zzVerifTable[os.Getenv(\"VRT_HARNESS\")]\n\tif f == nil {\n\t\tt.Fatalf(\"unknown harness\")\n\t}\n")
		sb.WriteString("\tif p := os.Getenv(\"VRT_SELFTEST\"); p != \"\" {\n\t\tvrt.SelfTest(p, f)\n\t\treturn\n\t}\n")
		sb.WriteString("\tif os.Getenv(\"VRT_RACE\") != \"\" {\n\t\t// race replay: the same harness in 8 goroutines at once (run under go test -race)\n\t\tvrt.Reset()\n\t\tvrt.Concurrent = true\n\t\tdone := make(chan bool)\n\t\tstart := make(chan struct{})\n\t\tfor g := 0; g < 8; g++ {\n\t\t\tgo func() {\n\t\t\t\t<-start // all goroutines enter their first run together\n\t\t\t\tfor k := 0; k < 25; k++ {\n\t\t\t\t\tvrt.RunGuarded(f)\n\t\t\t\t}\n\t\t\t\tdone <- true\n\t\t\t}()\n\t\t}\n\t\tclose(start)\n\t\tfor g := 0; g < 8; g++ {\n\t\t\t<-done\n\t\t}\n\t\tfor _, m := range vrt.Failures {\n\t\t\tt.Errorf(\"ASSERT FAILED: %s\", m)\n\t\t}\n\t\treturn\n\t}\n")
		sb.WriteString("\tn := 1\n\tif os.Getenv(\"VRT_REPEAT\") != \"\" {\n\t\tn = 200\n\t}\n\tfor i := 0; i < n; i++ {\n\t\tvrt.Reset()\n")
		sb.WriteString("\t\tpanicked, skipped, val := vrt.RunGuarded(f)\n\t\tif panicked {\n\t\t\tt.Fatalf(\"PANIC: %v\", val)\n\t\t}\n\t\tif skipped {\n\t\t\tt.Logf(\"ASSUMPTION-FAILED\")\n\t\t}\n")
		sb.WriteString("\t\tfor _, m := range vrt.Failures {\n\t\t\tt.Errorf(\"ASSERT FAILED: %s\", m)\n\t\t}\n\t\tif t.Failed() {\n\t\t\treturn\n\t\t}\n\t}\n}\n")
		fn := filepath.Join(workdir, strings.ReplaceAll(rel, "/", "_")+"_replay_test.go")
		os.WriteFile(fn, []byte(sb.String()), 0o644)
		repl[filepath.Join(w.repo, rel, "zz_verif_replay_test.go")] = fn
	}
	ovp := filepath.Join(workdir, "overlay.json")
	b, _ := json.MarshalIndent(map[string]interface{}{"Replace": repl}, "", " ")
	os.WriteFile(ovp, b, 0o644)
	return ovp
}

// replayNative runs the harness natively on the model; returns the go test output and whether
// the named assertion (or a panic) reproduced.
func (w *World) replayNative(overlayPath string, doc *ReplayDoc, docPath string, repeat bool) (string, bool) {
	cmd := exec.Command("go", "test", "-vet=off", "-count=1", "-overlay", overlayPath, "-run", "^TestVerifReplay$", "./"+doc.Pkg)
	cmd.Dir = w.repo
	cmd.Env = append(os.Environ(), "GOFLAGS=-mod=mod", "GOPROXY=off", "GOSUMDB=off", "GOTOOLCHAIN=local",
		"VRT_MODEL="+docPath, "VRT_HARNESS="+doc.Harness)
	if repeat {
		cmd.Env = append(cmd.Env, "VRT_REPEAT=1")
	}
	out, _ := cmd.CombinedOutput()
	s := string(out)
	ok := false
	switch doc.Kind {
	case "history":
		// run the harness natively twice in fresh processes: without and with the preceding history
		obs := func(phase string) string {
			f := docPath + ".observe-" + phase
			os.Remove(f)
			c := exec.Command("go", "test", "-vet=off", "-count=1", "-overlay", overlayPath, "-run", "^TestVerifReplay$", "./"+doc.Pkg)
			c.Dir = w.repo
			c.Env = append(os.Environ(), "GOFLAGS=-mod=mod", "GOPROXY=off", "GOSUMDB=off", "GOTOOLCHAIN=local",
				"VRT_MODEL="+docPath, "VRT_HARNESS="+doc.Harness, "VRT_PHASE="+phase, "VRT_OBSERVE="+f)
			c.CombinedOutput()
			b, _ := os.ReadFile(f)
			return string(b)
		}
		a, b := obs("A"), obs("B")
		s = "without history:\n" + a + "with history:\n" + b
		ok = a != "" && b != "" && a != b
	case "panic":
		ok = strings.Contains(s, "PANIC:") || strings.Contains(s, "panic:")
	default:
		msg := doc.Assertion
		if i := strings.LastIndex(msg, "#"); i >= 0 {
			msg = msg[:i]
		}
		if i := strings.Index(msg, " (candidate writes:"); i >= 0 {
			msg = msg[:i]
		}
		if doc.Assertion == "" {
			ok = strings.Contains(s, "ASSERT FAILED: ")
		} else {
			ok = strings.Contains(s, "ASSERT FAILED: "+msg)
		}
	}
	return s, ok
}

// replayRace runs the harness concurrently in several goroutines under the race detector.
func (w *World) replayRace(overlayPath string, doc *ReplayDoc, docPath string) (string, bool) {
	cmd := exec.Command("go", "test", "-race", "-vet=off", "-count=1", "-overlay", overlayPath, "-run", "^TestVerifReplay$", "./"+doc.Pkg)
	cmd.Dir = w.repo
	cmd.Env = append(os.Environ(), "GOFLAGS=-mod=mod", "GOPROXY=off", "GOSUMDB=off", "GOTOOLCHAIN=local",
		"VRT_MODEL="+docPath, "VRT_HARNESS="+doc.Harness, "VRT_RACE=1")
	out, _ := cmd.CombinedOutput()
	s := string(out)
	hit := func(s string) bool {
		return strings.Contains(s, "DATA RACE") || strings.Contains(s, "ASSERT FAILED") || strings.Contains(s, "concurrent map")
	}
	// a lazily initialised location is written by the first run only: every process start is one chance
	for try := 0; try < 5 && !hit(s); try++ {
		c := exec.Command("go", "test", "-race", "-vet=off", "-count=1", "-overlay", overlayPath, "-run", "^TestVerifReplay$", "./"+doc.Pkg)
		c.Dir, c.Env = cmd.Dir, cmd.Env
		o2, _ := c.CombinedOutput()
		s = string(o2)
	}
	return s, hit(s)
}

func cmdCheck(args []string) {
	fs := flag.NewFlagSet("check", flag.ExitOnError)
	repo := fs.String("repo", "/repo", "repository")
	vdir := fs.String("verif", "/verif", "verif directory")
	prop := fs.String("prop", "", "property id")
	tier := fs.String("tier", "quick", "quick|thorough")
	workers := fs.Int("workers", 16, "parallel solver chunks")
	replayPath := fs.String("replay", "", "replay a stored counterexample")
	only := fs.String("only", "", "substring filter on harness names (debug)")
	fs.Parse(args)
	if *prop == "" {
		fatal("missing -prop")
	}
	tierGiven := false
	fs.Visit(func(f *flag.Flag) {
		if f.Name == "tier" {
			tierGiven = true
		}
	})
	if t := os.Getenv("VERIF_TIER"); !tierGiven && (t == "quick" || t == "thorough") {
		*tier = t // the environment chooses the tier only when the command line does not
	}
	seed := 0
	if s := os.Getenv("VERIF_SEED"); s != "" {
		seed, _ = strconv.Atoi(s)
	}
	t0 := time.Now()
	hdir := filepath.Join(*vdir, "harness")
	w := loadWorld(*repo, hdir)
	loadSecs := time.Since(t0).Seconds()
	workdir := filepath.Join(*vdir, ".work", "replay-"+*prop)
	ovp := w.writeReplayTestFiles(workdir)

	if *replayPath != "" {
		b, err := os.ReadFile(*replayPath)
		if err != nil {
			fatal("read %s: %v", *replayPath, err)
		}
		var doc ReplayDoc
		json.Unmarshal(b, &doc)
		abs, aerr := filepath.Abs(*replayPath)
		if aerr == nil {
			*replayPath = abs // the native test runs in the package directory
		}
		var out string
		var ok bool
		if doc.Kind == "race" {
			out, ok = w.replayRace(ovp, &doc, *replayPath)
		} else {
			out, ok = w.replayNative(ovp, &doc, *replayPath, false)
			if !ok {
				out, ok = w.replayNative(ovp, &doc, *replayPath, true)
			}
		}
		fmt.Print(out)
		if ok {
			fmt.Printf("VIOLATION property=%s replay=%s\n", doc.Property, *replayPath)
			os.Exit(1)
		}
		fmt.Println("replay: the stored counterexample does not reproduce on the current tree")
		os.Exit(0)
	}

	specs := loadSpecs(filepath.Join(hdir, "harnesses.json"))
	known := loadKnown(filepath.Join(*vdir, "known-findings.json"))
	ro := runOpts{solvers: []string{"z3new", "cvc5"}, cap: 120, workers: *workers}
	if *tier == "thorough" {
		ro.cap = 900
	}
	{
		exe, _ := os.Executable()
		ro.self = []string{exe, "run", "-repo", *repo, "-harness", hdir, "-specs", filepath.Join(hdir, "harnesses.json"), "-tier", *tier, "-cap", fmt.Sprint(ro.cap), "-workers", "1"}
		ro.parallelEntries = true
	}
	var reports []HarnessReport
	violations := 0
	inconclusive := 0
	var lines []string
	var samples []interface{}
	evaluations, nontrivial, obligations, discharged := 0, 0, 0, 0
	funcs := map[string]bool{}
	var bounds []string
	replayDir := filepath.Join(*vdir, "replays", *prop)
	replayed := 0
	unreplayed := 0
	var notStatable []string
	var lemmaFailed []string
	const maxReplays = 8
	knownSeen := map[string]bool{}

	// pass 1: run everything
	type ran struct {
		s   HarnessSpec
		rep HarnessReport
	}
	var runs []ran
	reachKey := func(h, name string) string {
		if i := strings.Index(name, " @"); i >= 0 {
			name = name[:i]
		}
		return h + "|" + name
	}
	reachOK := map[string]bool{}
	var selected []HarnessSpec
	for _, s := range specs {
		found := false
		for _, p := range s.Prop {
			if p == *prop {
				found = true
			}
		}
		if !found || (s.Tier == "thorough" && *tier != "thorough") || (s.Tier == "quick-only" && *tier == "thorough") {
			continue
		}
		if *only != "" && !strings.Contains(s.Name, *only) {
			continue
		}
		selected = append(selected, s)
	}
	runs = make([]ran, len(selected))
	{
		var wg sync.WaitGroup
		var pmu sync.Mutex
		for i, s := range selected {
			wg.Add(1)
			go func(i int, s HarnessSpec) {
				defer wg.Done()
				rep, _ := w.runHarness(s, ro)
				pmu.Lock()
				summarize(rep)
				pmu.Unlock()
				runs[i] = ran{s, rep}
			}(i, s)
		}
		wg.Wait()
	}
	for _, rr := range runs {
		for _, o := range rr.rep.Obls {
			if o.Kind == "reach" && o.Status == "witness-ok" {
				reachOK[reachKey(rr.s.Pkg+":"+rr.s.Name, o.Name)] = true
			}
		}
	}
	// pass 2: judge
	for ri, rr := range runs {
		s, rep := rr.s, rr.rep
		reports = append(reports, rep)
		if rep.Error != "" {
			if s.Optional && strings.HasPrefix(rep.Error, "not statable on this tree") {
				// an optional lemma about an unexported function that the tree no longer has in that form
				notStatable = append(notStatable, s.Name)
				lines = append(lines, fmt.Sprintf("NOTE property=%s harness=%s is %s; the property is decided by the remaining harnesses", *prop, s.Name, rep.Error))
				continue
			}
			inconclusive++
			lines = append(lines, fmt.Sprintf("INCONCLUSIVE property=%s harness=%s: %s", *prop, s.Name, rep.Error))
			continue
		}
		for _, f := range rep.Funcs {
			funcs[f] = true
		}
		if s.Note != "" {
			bounds = append(bounds, s.Name+": "+s.Note)
		}
		for i := range rep.Obls {
			o := &rep.Obls[i]
			evaluations += len(o.Verdicts)
			isKF := o.Kind == "known-finding"
			switch o.Kind {
			case "assert", "panic", "unwind", "history":
				obligations++
			}
			switch o.Status {
			case "discharged":
				if o.Kind != "known-finding" {
					discharged++
					if !o.Trivial {
						nontrivial++
					}
				} else {
					lines = append(lines, fmt.Sprintf("NOTE property=%s known finding %q is no longer reproducible (obligation unsat)", *prop, o.Name))
				}
			case "witness-ok":
				if !o.Trivial {
					nontrivial++
				}
				if len(samples) < 6 && o.Model != nil {
					samples = append(samples, map[string]interface{}{"harness": s.Name, "reaches": o.Name, "input": o.Model})
				}
			case "vacuous":
				// an assertion (or a whole cube) may be unreachable in one cube as long as it is reached in another
				if reachOK[reachKey(s.Pkg+":"+s.Name, o.Name)] || strings.HasPrefix(o.Name, "assumptions satisfiable") {
					continue
				}
				inconclusive++
				lines = append(lines, fmt.Sprintf("INCONCLUSIVE property=%s harness=%s: vacuous (unreachable in every cube) %s", *prop, s.Name, o.Name))
			case "solver-disagreement":
				inconclusive++
				lines = append(lines, fmt.Sprintf("ENGINE-MISMATCH property=%s harness=%s: solvers disagree on %s %v", *prop, s.Name, o.Name, o.Verdicts))
			case "inconclusive":
				inconclusive++
				lines = append(lines, fmt.Sprintf("INCONCLUSIVE property=%s harness=%s: %s not decided %v", *prop, s.Name, o.Name, o.Verdicts))
			case "violated":
				if o.Kind == "unwind" {
					inconclusive++
					lines = append(lines, fmt.Sprintf("INCONCLUSIVE property=%s harness=%s: a stated bound is exceeded (%s)", *prop, s.Name, o.Name))
					continue
				}
				// replay natively (at most maxReplays per run: further violated obligations of a tree that is
				// already known to violate the property are only counted)
				if violations >= maxReplays {
					unreplayed++
					continue
				}
				os.MkdirAll(replayDir, 0o755)
				replayed++
				doc := &ReplayDoc{Property: *prop, Harness: s.Name, Pkg: s.Pkg, Assertion: o.Name, Kind: o.Kind, Values: o.Model}
				if doc.Values == nil {
					doc.Values = map[string]interface{}{}
				}
				docPath := filepath.Join(replayDir, fmt.Sprintf("%s-%s-%d-%d.json", strings.ReplaceAll(s.Pkg, "/", ""), s.Name, ri, i))
				b, _ := json.MarshalIndent(doc, "", " ")
				os.WriteFile(docPath, b, 0o644)
				out, ok := w.replayNative(ovp, doc, docPath, false)
				if !ok && strings.Contains(strings.Join(rep.Nondets, " "), "perm") {
					out, ok = w.replayNative(ovp, doc, docPath, true)
				}
				if !ok {
					// map-order dependent counterexamples need many native runs
					out2, ok2 := w.replayNative(ovp, doc, docPath, true)
					if ok2 {
						out, ok = out2, true
					}
				}
				if s.Lemma && o.Kind != "panic" && !isKF {
					// a counterexample of a lemma over unexported functions: it shows that the lemma does not hold on this
					// tree, which is a violation of the property only if it shows through the exported API
					if s.Confirm == "" {
						lemmaFailed = append(lemmaFailed, s.Name+": "+o.Name)
						if !s.Optional {
							inconclusive++
							lines = append(lines, fmt.Sprintf("INCONCLUSIVE property=%s harness=%s: the proof step %q does not hold on this tree and there is no check through the exported API to confirm it as a violation (see %s)", *prop, s.Name, o.Name, docPath))
						} else {
							lines = append(lines, fmt.Sprintf("NOTE property=%s harness=%s: lemma %q does not hold on this tree (see %s); the property is decided by the harnesses that use the exported API only", *prop, s.Name, o.Name, docPath))
						}
						continue
					}
					doc2 := &ReplayDoc{Property: *prop, Harness: s.Confirm, Pkg: s.Pkg, Assertion: "", Kind: "assert", Values: o.Model}
					p2 := strings.TrimSuffix(docPath, ".json") + "-confirm.json"
					b2, _ := json.MarshalIndent(doc2, "", " ")
					os.WriteFile(p2, b2, 0o644)
					cout, cok := w.replayNative(ovp, doc2, p2, false)
					if cok || strings.Contains(cout, "PANIC:") {
						doc2.Native = lastLines(cout, 12)
						b2, _ = json.MarshalIndent(doc2, "", " ")
						os.WriteFile(p2, b2, 0o644)
						violations++
						lines = append(lines, fmt.Sprintf("VIOLATION property=%s replay=%s", *prop, p2))
						samples = append(samples, map[string]interface{}{"harness": s.Name, "violates": o.Name, "confirmed_by": s.Confirm, "input": o.Model})
						continue
					}
					lemmaFailed = append(lemmaFailed, s.Name+": "+o.Name)
					if s.Optional {
						lines = append(lines, fmt.Sprintf("NOTE property=%s harness=%s: lemma %q does not hold on this tree but its counterexample does not show through the exported API (%s passes natively on it): the internal contract differs, the property is decided by the harnesses that use the exported API only", *prop, s.Name, o.Name, s.Confirm))
					} else {
						inconclusive++
						lines = append(lines, fmt.Sprintf("INCONCLUSIVE property=%s harness=%s: the proof step %q does not hold on this tree, but its counterexample satisfies the property through the exported API (%s passes natively on it): the decomposition does not fit this tree and the property is not decided", *prop, s.Name, o.Name, s.Confirm))
					}
					continue
				}
				isFrame := strings.Contains(o.Name, "(candidate writes:")
				if !ok && isFrame && (*prop == "C16" || *prop == "C15") {
					// a write to a pre-existing location that is not observable sequentially: is it a data race?
					rout, rok := w.replayRace(ovp, doc, docPath)
					if rok && *prop == "C16" {
						out, ok = rout, true
						doc.Kind = "race"
					} else if *prop == "C15" {
						doc.Native = lastLines(out, 6)
						b, _ = json.MarshalIndent(doc, "", " ")
						os.WriteFile(docPath, b, 0o644)
						lines = append(lines, fmt.Sprintf("NOTE property=%s harness=%s: %s: the write is not observable through the public API in a sequential replay (the harness' own result comparisons decide C15; C16 judges it under the race detector)", *prop, s.Name, o.Name))
						continue
					} else if *prop == "C16" {
						// not observable sequentially and no race reported in the concurrent replay (8 goroutines x 25 runs
						// under the race detector): a synchronised or idempotent write (sync.Once, sync.Map, same value)
						doc.Native = lastLines(rout, 6)
						b, _ = json.MarshalIndent(doc, "", " ")
						os.WriteFile(docPath, b, 0o644)
						lines = append(lines, fmt.Sprintf("NOTE property=%s harness=%s: %s: the write is neither observable sequentially nor reported by the race detector in the concurrent replay; the static scan decides whether its synchronisation is within the argument", *prop, s.Name, o.Name))
						continue
					}
				}
				doc.Native = lastLines(out, 12)
				b, _ = json.MarshalIndent(doc, "", " ")
				os.WriteFile(docPath, b, 0o644)
				if !ok {
					inconclusive++
					lines = append(lines, fmt.Sprintf("ENGINE-MISMATCH property=%s harness=%s: model for %q does not reproduce natively (see %s)", *prop, s.Name, o.Name, docPath))
					continue
				}
				if isKF {
					id := kfID(o.Name)
					var match *KnownFinding
					for k := range known {
						if known[k].ID == id && known[k].Kind == "known" {
							match = &known[k]
						}
					}
					if match != nil && len(match.Inputs) > 0 && s.Enumerate {
						// the finding is identified by its complete input list: enumerate and compare
						if len(o.AllModels) == 0 || !o.AllComplete {
							inconclusive++
							lines = append(lines, fmt.Sprintf("INCONCLUSIVE property=%s harness=%s: failing inputs of known finding %s could not be enumerated completely", *prop, s.Name, id))
							continue
						}
						listed := map[string]bool{}
						for _, in := range match.Inputs {
							listed[in] = true
						}
						newOnes := 0
						for mi, m := range o.AllModels {
							if listed[modelKey(m)] {
								continue
							}
							// an input the file does not list: a different violation of the same property
							doc2 := &ReplayDoc{Property: *prop, Harness: s.Name, Pkg: s.Pkg, Assertion: o.Name, Kind: o.Kind, Values: m}
							p2 := filepath.Join(replayDir, fmt.Sprintf("%s-%s-%d-%d-new%d.json", strings.ReplaceAll(s.Pkg, "/", ""), s.Name, ri, i, mi))
							b2, _ := json.MarshalIndent(doc2, "", " ")
							os.WriteFile(p2, b2, 0o644)
							if _, ok2 := w.replayNative(ovp, doc2, p2, false); ok2 {
								newOnes++
								violations++
								lines = append(lines, fmt.Sprintf("VIOLATION property=%s replay=%s", *prop, p2))
								samples = append(samples, map[string]interface{}{"harness": s.Name, "violates": o.Name, "input": m, "note": "not in the known-findings list"})
							} else {
								inconclusive++
								lines = append(lines, fmt.Sprintf("ENGINE-MISMATCH property=%s harness=%s: unlisted failing input %s does not reproduce natively", *prop, s.Name, modelKey(m)))
							}
						}
						if !knownSeen[id] {
							knownSeen[id] = true
							lines = append(lines, fmt.Sprintf("KNOWN-FINDING: property=%s %s [%s] %d listed inputs, %d enumerated by the solver, %d unlisted; witness=%s", *prop, match.What, match.Site, len(match.Inputs), len(o.AllModels), newOnes, docPath))
						}
						continue
					}
					if match != nil {
						if !knownSeen[id] {
							knownSeen[id] = true
							lines = append(lines, fmt.Sprintf("KNOWN-FINDING: property=%s %s [%s] witness=%s", *prop, match.What, match.Site, docPath))
						}
						continue
					}
				}
				violations++
				lines = append(lines, fmt.Sprintf("VIOLATION property=%s replay=%s", *prop, docPath))
				samples = append(samples, map[string]interface{}{"harness": s.Name, "violates": o.Name, "input": o.Model})
			}
		}
	}
	if len(reports) == 0 {
		fatal("no harness registered for property %s", *prop)
	}
	wall := time.Since(t0).Seconds()
	for _, l := range lines {
		fmt.Println(l)
	}
	// evidence
	var fl []string
	for f := range funcs {
		fl = append(fl, f)
	}
	sort.Strings(fl)
	if len(samples) == 0 {
		samples = append(samples, map[string]interface{}{"note": "no model sampled"})
	}
	level := "model_checking"
	scan := w.staticScan()
	if *prop == "C16" {
		level = "other"
	}
	if (*prop == "C15" || *prop == "C16") && (len(scan.GlobalWrites) > 0 || len(scan.GoStmts) > 0 || len(scan.SyncUses) > 0) {
		// the frame harnesses decide whether a write is observable; synchronisation is not modelled at all
		// C15 is about sequential executions, for which sync.Map (a map), sync.Once (a flag) and mutexes (no-ops) are
		// modelled; C16 accepts sync.Map on scalar payloads and sync.Once with dominated accesses and nothing else
		if *prop == "C16" && (len(scan.SyncUnmodelled) > 0 || len(scan.GoStmts) > 0) {
			inconclusive++
			fmt.Printf("INCONCLUSIVE property=%s: the code under test uses goroutines or synchronisation that the non-interference argument does not cover: %v %v\n", *prop, scan.GoStmts, scan.SyncUnmodelled)
		}
		if *prop == "C15" && len(scan.GoStmts) > 0 {
			inconclusive++
			fmt.Printf("INCONCLUSIVE property=%s: the code under test starts goroutines, which the sequential model does not cover: %v\n", *prop, scan.GoStmts)
		}
	}
	var hsum []map[string]interface{}
	for _, r := range reports {
		st := map[string]int{}
		for _, o := range r.Obls {
			st[o.Kind+":"+o.Status]++
		}
		hsum = append(hsum, map[string]interface{}{
			"harness": r.Spec.Name, "bounds": r.Spec.Note, "nondet_inputs": r.Nondets, "ssa_instructions": r.Instrs,
			"terms": r.Terms, "native_folds": r.LiftOps, "exec_s": round3(r.ExecSecs), "solve_s": round3(r.SolveSecs),
			"obligation_status": st, "error": r.Error,
		})
	}
	ev := map[string]interface{}{
		"property_id": *prop,
		"tier":        *tier,
		"seed":        seed,
		"level":       level,
		"wall_s":      round3(wall),
		"violations":  violations,
		"coverage": map[string]interface{}{
			"evaluations":         evaluations,
			"distinct_nontrivial": nontrivial,
			"rule":                "one evaluation = one SMT query answered by one solver; an obligation is the negation of one harness assertion (or the no-panic / bound-sufficiency condition) conjoined with the harness assumptions; non-trivial = not decided by constant folding and its reachability twin (same path condition, assertion replaced by false) was satisfiable; every obligation is distinct (different assertion of different harness)",
			"samples":             samples,
			"obligations":         obligations,
			"discharged":          discharged,
			"checker_cmd":         fmt.Sprintf("./check %s --tier %s", *prop, *tier),
			"trusted_base":        []string{"go/ssa (x/tools v0.29.0) construction of SSA from /repo's current source", "symgo encoder and its environment models (DESIGN.md 4.6)", "z3 5.1.0 and cvc5 1.0.3 (each obligation sent to both; disagreement = engine error)", "host FPU / Go math for native folding of lifted float constants", "FIRST tables transcribed in harness/*/spec*.go"},
			"functions_encoded":   fl,
			"bounds":              bounds,
			"harnesses":           hsum,
			"solver_time_s":       Pool.timeSec,
			"solver_queries":      Pool.queries,
			"load_s":              round3(loadSecs),
			"replayed_models":     replayed,
			"inconclusive":        inconclusive,
			"exhaustive":          allComplete(reports),
			"known_findings_seen": len(knownSeen),
			"static_scan":         scan,
			"harnesses_not_statable_on_this_tree": notStatable,
			"lemmas_not_holding_on_this_tree":     lemmaFailed,
			"explanation":         explanationFor(*prop),
		},
		"assumptions": []string{
			"harness assumptions (vrt.Assume / Enum ranges / StringNo) are part of every obligation; each harness' assumption set is checked satisfiable",
			"environment models of strings, fmt, errs, errors, math, strconv, io, bytes, text/template as listed in DESIGN.md 4.6",
			"map iteration order is symbolic only where the harness enables it (C15/C20); elsewhere a fixed order is used, justified by the order-independence lemmas of C15/C20",
		},
	}
	os.MkdirAll(filepath.Join(*vdir, "evidence"), 0o755)
	b, _ := json.MarshalIndent(ev, "", " ")
	if err := os.WriteFile(filepath.Join(*vdir, "evidence", *prop+".json"), b, 0o644); err != nil {
		fatal("write evidence: %v", err)
	}
	// detailed per-obligation log next to it (not the evidence file)
	os.MkdirAll(filepath.Join(*vdir, ".work"), 0o755)
	db, _ := json.MarshalIndent(reports, "", " ")
	os.WriteFile(filepath.Join(*vdir, ".work", *prop+"-"+*tier+"-detail.json"), db, 0o644)
	if unreplayed > 0 {
		fmt.Printf("NOTE property=%s: %d further obligations have solver counterexamples that were not replayed (replay limit %d reached)\n", *prop, unreplayed, maxReplays)
	}
	fmt.Printf("SUMMARY property=%s tier=%s obligations=%d discharged=%d violations=%d inconclusive=%d queries=%d wall=%.1fs\n",
		*prop, *tier, obligations, discharged, violations, inconclusive, evaluations, wall)
	switch {
	case violations > 0:
		os.Exit(1)
	case inconclusive > 0:
		os.Exit(2)
	}
	os.Exit(0)
}

func kfID(name string) string {
	// "KF:<id>: text#n"
	s := strings.TrimPrefix(name, "KF:")
	if i := strings.Index(s, ":"); i >= 0 {
		s = s[:i]
	}
	return s
}

func lastLines(s string, n int) string {
	ls := strings.Split(strings.TrimRight(s, "\n"), "\n")
	if len(ls) > n {
		ls = ls[len(ls)-n:]
	}
	return strings.Join(ls, "\n")
}

func round3(f float64) float64 { return float64(int64(f*1000+0.5)) / 1000 }

// selftest: solvers present and agreeing on a fixed set of micro-queries that
// exercise every theory the encoder emits.
func cmdSelftest() {
	x := NewVar("st_x", SBV)
	s := NewVar("st_s", SStr)
	f := NewVar("st_f", SFP)
	b := &Batch{Name: "selftest"}
	add := func(name string, t *Term, exp Verdict) {
		b.Obls = append(b.Obls, &Obligation{Name: name, Kind: "assert", Formula: t, Expect: exp})
	}
	add("bv", And(BVBin(OpBVSLt, x, BV(3)), BVBin(OpBVSLt, BV(5), x)), VUnsat)
	add("bv-sat", And(BVBin(OpBVSLt, x, BV(7)), BVBin(OpBVSLt, BV(5), x)), VSat)
	add("str", And(Eq(Concat(s, Str(":")), Str("AV:")), Not(Eq(s, Str("AV")))), VUnsat)
	add("str-idx", And(IntBin(OpIntLt, IndexOf(s, Str(":"), IntC(0)), IntC(0)), Eq(s, Str("a:b"))), VUnsat)
	add("fp", And(FPOp(OpFPLe, FP(0), f), FPOp(OpFPLe, f, FP(1)), FPOp(OpFPLt, FP(1), FPOp(OpFPMul, f, f))), VUnsat)
	add("fp-round", Not(FPOp(OpFPEq, FPOp(OpFPRound, FP(2.5)), FP(3))), VUnsat)
	// Pow chain vs math.Pow on the arguments that can occur (and random ones)
	{
		rng := rand.New(rand.NewSource(7))
		for i := 0; i < 200000; i++ {
			x := rng.Float64()*2 - 1
			if i%4 == 0 {
				x = float64(rng.Intn(2001)-1000) / 1000
			}
			for _, n := range []int64{13, 15} {
				if goPowChainNative(x, n) != math.Pow(x, float64(n)) {
					fmt.Printf("selftest: Pow chain differs from math.Pow at x=%v n=%d\n", x, n)
					os.Exit(2)
				}
			}
		}
	}
	b.ModelVars = []*Term{x}
	runBatch(b, []string{"z3new", "cvc5"}, 60, 2)
	bad := 0
	for _, o := range b.Obls {
		for _, k := range sortedKeys(o.Results) {
			if k == "syntactic" {
				continue
			}
			if o.Results[k].Verdict != o.Expect {
				fmt.Printf("selftest: %s: %s answered %v (expected %v) %s\n", o.Name, k, o.Results[k].Verdict, o.Expect, o.Results[k].Raw)
				bad++
			}
		}
	}
	if bad > 0 {
		fmt.Println("selftest FAILED")
		os.Exit(2)
	}
	fmt.Println("selftest ok: z3-new and cvc5 agree on the micro-queries (BV, strings, FP)")
}

func explanationFor(prop string) string {
	if prop == "C16" {
		return "Schedules are not enumerated. The check establishes non-interference with the solver: for every operation class the property lists (decode into an own object, queries on a shared decoded object, report construction) and every input within the stated bounds, the set of writes to locations that existed before the operation (the shared object, every names map, every package-level table) is empty (frame obligations discharged by z3/cvc5 over the symbolic heap), and a static scan of the SSA finds no goroutine creation, no sync primitive and no store to a package-level variable outside package initialisers. By Bernstein's conditions operations without shared writes are data-race free and commute, so every interleaving equals every sequential order. Internals of fmt, text/template, errs and x/text are trusted to be goroutine-safe."
	}
	return "bounded symbolic model checking of the real Go code: see rule / bounds / harnesses"
}

// allComplete: every harness of this run states (in its registry note) that it covers its finite domain completely.
func allComplete(reps []HarnessReport) bool {
	if len(reps) == 0 {
		return false
	}
	for _, r := range reps {
		if !strings.HasPrefix(r.Spec.Note, "complete") {
			return false
		}
	}
	return true
}
