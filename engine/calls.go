package main

// Call dispatch and environment models (intrinsics).

import (
	"fmt"
	"go/types"
	"math"
	"math/big"
	"strconv"
	"strings"

	"golang.org/x/tools/go/ssa"
)

func (fr *frame) doCall(cc *ssa.CallCommon, site ssa.Value, g *Term, where string) Value {
	ex := fr.ex
	args := make([]Value, 0, len(cc.Args)+1)
	if cc.IsInvoke() {
		recv := fr.eval(cc.Value)
		switch rv := recv.(type) {
		case *IfaceVal:
			ex.panicIf(And(g, rv.Nil), "method call on nil interface at "+where)
			if rv.Typ == nil {
				return ex.zeroResult(cc.Signature())
			}
			fn := ex.prog.LookupMethod(rv.Typ, cc.Method.Pkg(), cc.Method.Name())
			if fn == nil {
				unsupported("cannot resolve method %s on %v at %s", cc.Method.Name(), rv.Typ, where)
			}
			args = append(args, rv.V)
			for _, a := range cc.Args {
				args = append(args, fr.eval(a))
			}
			return ex.callResolved(fn, args, nil, g, where)
		case *OpaqueVal:
			// abstract reader etc.
			for _, a := range cc.Args {
				args = append(args, fr.eval(a))
			}
			return ex.opaqueInvoke(rv, cc.Method.Name(), args, g, where)
		}
		unsupported("invoke on %T at %s", recv, where)
	}
	for _, a := range cc.Args {
		v := fr.eval(a)
		if p, ok := v.(*PtrVal); ok {
			v = prunePtr(p, g)
		}
		args = append(args, v)
	}
	switch callee := cc.Value.(type) {
	case *ssa.Builtin:
		return fr.builtin(callee, cc, args, g, where)
	case *ssa.Function:
		return ex.callResolved(callee, args, nil, g, where)
	}
	fv, ok := fr.eval(cc.Value).(*FuncVal)
	if !ok {
		unsupported("call of %T at %s", fr.eval(cc.Value), where)
	}
	if fv.Fn == nil {
		ex.panicIf(g, "call of nil function at "+where)
		return ex.zeroResult(cc.Signature())
	}
	return ex.callResolved(fv.Fn, args, fv.Bind, g, where)
}

// callSplit executes a call once per constant of its large lifted scalar
// arguments (path splitting at call granularity): f(cases{g_i -> v_i}) is
// merged from f(v_i) under guard g_i. This keeps value sets free of the
// spurious (guard, value) pairs that merging both sides of a data-dependent
// branch inside f would create.
const splitMin = 12
const splitCap = 200000

func (ex *Exec) callSplit(fn *ssa.Function, args []Value, bind []Value, g *Term) Value {
	var idx []int
	total := 1
	if len(args) > 2 || ex.hasObligations(fn) {
		return ex.callFunction(fn, args, bind, g)
	}
	for i, a := range args {
		if t, ok := a.(*Term); ok && t.op == OpCases && len(t.cases) >= splitMin {
			idx = append(idx, i)
			total *= len(t.cases)
		}
	}
	if len(idx) == 0 || total > splitCap {
		return ex.callFunction(fn, args, bind, g)
	}
	type part struct {
		g *Term
		v Value
	}
	var parts []part
	cur := make([]Value, len(args))
	copy(cur, args)
	var rec func(k int, lg *Term)
	rec = func(k int, lg *Term) {
		if lg.IsFalse() {
			return
		}
		if k == len(idx) {
			ag := And(g, lg)
			if ag.IsFalse() {
				return
			}
			// values are merged under the case guards only (independent of the calling context)
			parts = append(parts, part{lg, ex.callFunction(fn, cur, bind, ag)})
			return
		}
		for _, c := range args[idx[k]].(*Term).cases {
			cur[idx[k]] = c.V
			rec(k+1, And(lg, c.G))
		}
	}
	rec(0, True)
	if len(parts) == 0 {
		return ex.zeroResult(fn.Signature)
	}
	return mergeParts(len(parts), func(i int) (*Term, Value) { return parts[i].g, parts[i].v })
}

// mergeParts merges values under mutually exclusive guards; liftable scalars
// are merged into one flat case list.
func mergeParts(n int, at func(i int) (*Term, Value)) Value {
	_, v0 := at(0)
	switch x := v0.(type) {
	case nil:
		return nil
	case *Term:
		if x.sort != SBool {
			all := true
			var cs []Case
			for i := 0; i < n && all; i++ {
				g, v := at(i)
				t, ok := v.(*Term)
				if !ok || !t.Liftable() {
					all = false
					break
				}
				for _, c := range casesOf(t) {
					cs = append(cs, Case{And(g, c.G), c.V})
				}
			}
			if all {
				return mkCases(x.sort, cs)
			}
		} else {
			var ds []*Term
			for i := 0; i < n; i++ {
				g, v := at(i)
				ds = append(ds, And(g, v.(*Term)))
			}
			return Or(ds...)
		}
	case TupleVal:
		r := make(TupleVal, len(x))
		for j := range x {
			jj := j
			r[j] = mergeParts(n, func(i int) (*Term, Value) {
				g, v := at(i)
				return g, v.(TupleVal)[jj]
			})
		}
		return r
	}
	var acc Value
	for i := n - 1; i >= 0; i-- {
		g, v := at(i)
		if acc == nil {
			acc = v
		} else {
			acc = iteValue(g, v, acc)
		}
	}
	return acc
}

// hasObligations: the function body itself states assertions / assumptions (harness code); such
// calls are not split per case, so that one source assertion stays one obligation.
func (ex *Exec) hasObligations(fn *ssa.Function) bool {
	if v, ok := ex.oblCache[fn]; ok {
		return v
	}
	r := false
	for _, b := range fn.Blocks {
		for _, ins := range b.Instrs {
			if c, ok := ins.(*ssa.Call); ok {
				if callee := c.Common().StaticCallee(); callee != nil && callee.Pkg != nil && callee.Pkg.Pkg.Path() == vrtPath {
					switch callee.Name() {
					case "Assert", "Assume", "Reach", "FrameBegin", "FrameUnchanged":
						r = true
					}
				}
			}
		}
	}
	if ex.oblCache == nil {
		ex.oblCache = map[*ssa.Function]bool{}
	}
	ex.oblCache[fn] = r
	return r
}

func (ex *Exec) zeroResult(sig *types.Signature) Value {
	n := sig.Results().Len()
	if n == 0 {
		return nil
	}
	if n == 1 {
		return ex.zeroValue(sig.Results().At(0).Type())
	}
	r := make(TupleVal, n)
	for i := range r {
		r[i] = ex.zeroValue(sig.Results().At(i).Type())
	}
	return r
}

func fnKey(fn *ssa.Function) string {
	// "pkgpath.Name" or "(pkgpath.T).Name" / "(*pkgpath.T).Name"
	return fn.String()
}

func (ex *Exec) callResolved(fn *ssa.Function, args []Value, bind []Value, g *Term, where string) Value {
	key := fnKey(fn)
	if fn.Name() == "init" && fn.Synthetic != "" && len(fn.Params) == 0 && fn.Signature.Recv() == nil {
		return nil // package initialisers are run explicitly, in dependency order
	}
	if h, ok := intrinsics[key]; ok {
		return h(ex, fn, args, g, where)
	}
	if fn.Pkg != nil {
		p := fn.Pkg.Pkg.Path()
		if p == vrtPath {
			return ex.vrtCall(fn, args, g, where)
		}
		if strings.HasPrefix(p, modulePath) {
			return ex.callSplit(fn, args, bind, g)
		}
		if fn.Name() == "init" {
			return nil
		}
	} else if fn.Parent() != nil || fn.Synthetic != "" {
		// closures / wrappers of module functions
		if pp := fn.Parent(); pp != nil && pp.Pkg != nil && strings.HasPrefix(pp.Pkg.Pkg.Path(), modulePath) {
			return ex.callFunction(fn, args, bind, g)
		}
		if fn.Synthetic != "" && fn.Blocks != nil {
			return ex.callFunction(fn, args, bind, g)
		}
	}
	if fn.Parent() != nil {
		if pp := fn.Parent(); pp.Pkg != nil && strings.HasPrefix(pp.Pkg.Pkg.Path(), modulePath) {
			return ex.callFunction(fn, args, bind, g)
		}
	}
	unsupported("call of unmodelled function %s at %s", key, where)
	return nil
}

func (fr *frame) builtin(bi *ssa.Builtin, cc *ssa.CallCommon, args []Value, g *Term, where string) Value {
	switch bi.Name() {
	case "len":
		switch a := args[0].(type) {
		case *Term:
			return StrLenBV(a)
		case *SliceVal:
			return a.Len
		}
	case "cap":
		if a, ok := args[0].(*SliceVal); ok {
			return a.Len
		}
	case "append":
		s := args[0].(*SliceVal)
		x := args[1].(*SliceVal)
		if x.Len.op != OpConst {
			unsupported("append of symbolic-length tail at %s", where)
		}
		xn := int(x.Len.i)
		if !s.Len.Liftable() {
			unsupported("append to slice with symbolic length at %s", where)
		}
		max := 0
		for _, c := range casesOf(s.Len) {
			if int(c.V.i) > max {
				max = int(c.V.i)
			}
		}
		out := make([]Value, max+xn)
		copy(out, s.Elems)
		for _, c := range casesOf(s.Len) {
			L := int(c.V.i)
			for j := 0; j < xn; j++ {
				out[L+j] = iteValue(c.G, x.Elems[j], out[L+j])
			}
		}
		return &SliceVal{Elems: out, Len: BVBin(OpBVAdd, s.Len, x.Len), Nil: And(s.Nil, Bool(xn == 0))}
	}
	unsupported("builtin %s at %s", bi.Name(), where)
	return nil
}

type intrinsic func(ex *Exec, fn *ssa.Function, args []Value, g *Term, where string) Value

var intrinsics map[string]intrinsic

func init() {
	intrinsics = map[string]intrinsic{
		"strings.Split":                    inSplit,
		"strings.Join":                     inJoin,
		"(*strings.Builder).WriteString":   inBuilderWrite,
		"(*strings.Builder).String":        inBuilderString,
		"(*strings.Builder).Write":         inBuilderWriteBytes,
		"(*bytes.Buffer).Write":            inBuilderWriteBytes,
		"(*bytes.Buffer).String":           inBuilderString,
		"(*bytes.Buffer).WriteString":      inBuilderWrite,
		"strings.Contains":                 inContains,
		"(*sync.Map).Load":                 inSyncMapLoad,
		"(*sync.Map).Store":                inSyncMapStore,
		"(*sync.Map).LoadOrStore":          inSyncMapLoadOrStore,
		"strings.TrimPrefix":               inTrimPrefix,
		"fmt.Sprintf":                      inSprintf,
		"errors.New":                       inErrorsNew,
		"errors.Is":                        inErrIs,
		"github.com/goark/errs.Is":         inErrIs,
		"github.com/goark/errs.Wrap":       inErrsWrap,
		"github.com/goark/errs.WithContext": func(ex *Exec, fn *ssa.Function, a []Value, g *Term, w string) Value {
			// an errs option: [is it a cause option, the cause]
			return &OpaqueVal{Kind: "errs.opt", Args: []Value{False, newErrNil(len(ex.errNames))}}
		},
		"github.com/goark/errs.WithCause": func(ex *Exec, fn *ssa.Function, a []Value, g *Term, w string) Value {
			return &OpaqueVal{Kind: "errs.opt", Args: []Value{True, a[0]}}
		},
		"math.Pow":           inPow,
		"math.Round":         func(ex *Exec, fn *ssa.Function, a []Value, g *Term, w string) Value { return FPOp(OpFPRound, a[0].(*Term)) },
		"math.Floor":         func(ex *Exec, fn *ssa.Function, a []Value, g *Term, w string) Value { return FPOp(OpFPFloor, a[0].(*Term)) },
		"math.Min":           func(ex *Exec, fn *ssa.Function, a []Value, g *Term, w string) Value { return FPOp(OpFPMin, a[0].(*Term), a[1].(*Term)) },
		"math.IsNaN":         func(ex *Exec, fn *ssa.Function, a []Value, g *Term, w string) Value { return FPOp(OpFPIsNaN, a[0].(*Term)) },
		"math.Ceil":          liftedMath1(math.Ceil),
		"math.Trunc":         liftedMath1(math.Trunc),
		"math.Abs":           liftedMath1(math.Abs),
		"math.Sqrt":          liftedMath1(math.Sqrt),
		"math.RoundToEven":   liftedMath1(math.RoundToEven),
		"math.Log":           liftedMath1(math.Log),
		"math.Exp":           liftedMath1(math.Exp),
		"math.Max":           liftedMath2(math.Max),
		"math.Mod":           liftedMath2(math.Mod),
		"math.Float64bits": func(ex *Exec, fn *ssa.Function, a []Value, g *Term, w string) Value {
			t := a[0].(*Term)
			if !t.Liftable() {
				unsupported("math.Float64bits on a symbolic float at %s", w)
			}
			return lift(SBV, func(cs []*Term) *Term { return BV(int64(cs[0].f)) }, t)
		},
		"math.Inf": func(ex *Exec, fn *ssa.Function, a []Value, g *Term, w string) Value {
			t := a[0].(*Term)
			if !t.Liftable() {
				unsupported("math.Inf with symbolic sign at %s", w)
			}
			return lift(SFP, func(cs []*Term) *Term { return FP(math.Inf(int(cs[0].i))) }, t)
		},
		"strings.ToUpper":    liftedStr1(strings.ToUpper),
		"strings.ToLower":    liftedStr1(strings.ToLower),
		"strings.TrimSpace":  liftedStr1(strings.TrimSpace),
		"strings.Title":      liftedStr1(strings.Title),
		"strings.HasPrefix":  inHasPrefix,
		"strings.HasSuffix":  inHasSuffix,
		"strings.EqualFold":  liftedStr2Bool(strings.EqualFold),
		"strings.TrimSuffix": liftedStr2(strings.TrimSuffix),
		"strings.TrimLeft":   liftedStr2(strings.TrimLeft),
		"strings.TrimRight":  liftedStr2(strings.TrimRight),
		"strings.Trim":       liftedStr2(strings.Trim),
		"strings.Index": func(ex *Exec, fn *ssa.Function, a []Value, g *Term, w string) Value {
			x, y := a[0].(*Term), a[1].(*Term)
			if allLiftable(x, y) {
				return lift(SBV, func(cs []*Term) *Term { return BV(int64(strings.Index(cs[0].s, cs[1].s))) }, x, y)
			}
			return mkApp(OpInt2BV, SBV, "", IndexOf(x, y, IntC(0)))
		},
		"strings.Count": func(ex *Exec, fn *ssa.Function, a []Value, g *Term, w string) Value {
			x, y := a[0].(*Term), a[1].(*Term)
			if !allLiftable(x, y) {
				unsupported("strings.Count on symbolic strings at %s", w)
			}
			return lift(SBV, func(cs []*Term) *Term { return BV(int64(strings.Count(cs[0].s, cs[1].s))) }, x, y)
		},
		"strings.ReplaceAll": func(ex *Exec, fn *ssa.Function, a []Value, g *Term, w string) Value {
			x, y, z := a[0].(*Term), a[1].(*Term), a[2].(*Term)
			if !allLiftable(x, y, z) {
				unsupported("strings.ReplaceAll on symbolic strings at %s", w)
			}
			return lift(SStr, func(cs []*Term) *Term { return Str(strings.ReplaceAll(cs[0].s, cs[1].s, cs[2].s)) }, x, y, z)
		},
		"strconv.Atoi": func(ex *Exec, fn *ssa.Function, a []Value, g *Term, w string) Value {
			x := a[0].(*Term)
			if !x.Liftable() {
				return atoiSymbolic(ex, x)
			}
			n := lift(SBV, func(cs []*Term) *Term { v, _ := strconv.Atoi(cs[0].s); return BV(int64(v)) }, x)
			bad := lift(SBool, func(cs []*Term) *Term { _, err := strconv.Atoi(cs[0].s); return Bool(err != nil) }, x)
			e := &ErrVal{Nil: Not(bad), Bits: make([]*Term, len(ex.errNames))}
			for i := range e.Bits {
				e.Bits[i] = False
			}
			e.Bits[0] = bad
			return TupleVal{n, e}
		},
		"(*sync.Mutex).Lock":      inNoop,
		"(*sync.Mutex).Unlock":    inNoop,
		"(*sync.RWMutex).Lock":    inNoop,
		"(*sync.RWMutex).Unlock":  inNoop,
		"(*sync.RWMutex).RLock":   inNoop,
		"(*sync.RWMutex).RUnlock": inNoop,
		"strconv.FormatFloat": inFormatFloat,
		"strconv.Itoa": func(ex *Exec, fn *ssa.Function, a []Value, g *Term, w string) Value {
			t := a[0].(*Term)
			if !t.Liftable() {
				unsupported("strconv.Itoa on a symbolic integer at %s", w)
			}
			return lift(SStr, func(cs []*Term) *Term { return Str(strconv.FormatInt(cs[0].i, 10)) }, t)
		},
		"io.Copy":             inIOCopy,
		"text/template.New":   inTmplNew,
		"(*text/template.Template).Parse":   inTmplParse,
		"(*text/template.Template).Execute": inTmplExecute,
		"(*text/template.Template).Clone":  inTmplClone,
		"text/template.Must":               inTmplMust,
		"strings.Cut":                      inCut,
		"strings.CutPrefix":                inCutPrefix,
		"strings.IndexByte":                inIndexByte,
		"(*strings.Builder).Len":           inBuilderLen,
		"(*bytes.Buffer).Len":              inBuilderLen,
		"(*strings.Builder).Reset":         inBuilderReset,
		"(*bytes.Buffer).Reset":            inBuilderReset,
		"(*strings.Builder).Grow":          inNoop,
		"(*bytes.Buffer).Grow":             inNoop,
		"(*strings.Builder).WriteByte":     inBuilderWriteByte,
		"(*bytes.Buffer).WriteByte":        inBuilderWriteByte,
		"(*strings.Builder).WriteRune":     inBuilderWriteRune,
		"(*bytes.Buffer).WriteRune":        inBuilderWriteRune,
		"fmt.Errorf":                       inErrorf,
		"fmt.Fprintf":                      inFprintf,
		"fmt.Fprint":                       inFprint,
		"fmt.Sprint":                       inSprint,
		"(*sync.Once).Do":                  inOnceDo,
		"io.ReadAll":                       inReadAll,
		"io/ioutil.ReadAll":                inReadAll,
		"(golang.org/x/text/language.Tag).String": inTagString,
	}
}

// strings.Cut(s, sep): the first occurrence decides
func inCut(ex *Exec, fn *ssa.Function, a []Value, g *Term, w string) Value {
	s, sep := a[0].(*Term), a[1].(*Term)
	if allLiftable(s, sep) {
		before := lift(SStr, func(cs []*Term) *Term { b, _, _ := strings.Cut(cs[0].s, cs[1].s); return Str(b) }, s, sep)
		after := lift(SStr, func(cs []*Term) *Term { _, x, _ := strings.Cut(cs[0].s, cs[1].s); return Str(x) }, s, sep)
		found := lift(SBool, func(cs []*Term) *Term { _, _, f := strings.Cut(cs[0].s, cs[1].s); return Bool(f) }, s, sep)
		return TupleVal{before, after, found}
	}
	if !isStrConst(sep) {
		unsupported("strings.Cut with a symbolic separator at %s", w)
	}
	i := IndexOf(s, sep, IntC(0))
	found := Not(IntBin(OpIntLt, i, IntC(0)))
	n := IntC(int64(len(sep.s)))
	before := Ite(found, Substr(s, IntC(0), i), s)
	rest := IntBin(OpIntAdd, i, n)
	after := Ite(found, Substr(s, rest, IntBin(OpIntSub, StrLenInt(s), rest)), Str(""))
	return TupleVal{before, after, found}
}

func inCutPrefix(ex *Exec, fn *ssa.Function, a []Value, g *Term, w string) Value {
	s, p := a[0].(*Term), a[1].(*Term)
	if allLiftable(s, p) {
		after := lift(SStr, func(cs []*Term) *Term { x, _ := strings.CutPrefix(cs[0].s, cs[1].s); return Str(x) }, s, p)
		found := lift(SBool, func(cs []*Term) *Term { _, f := strings.CutPrefix(cs[0].s, cs[1].s); return Bool(f) }, s, p)
		return TupleVal{after, found}
	}
	if !isStrConst(p) {
		unsupported("strings.CutPrefix with a symbolic prefix at %s", w)
	}
	n := IntC(int64(len(p.s)))
	found := Eq(Substr(s, IntC(0), n), p)
	return TupleVal{Ite(found, Substr(s, n, IntBin(OpIntSub, StrLenInt(s), n)), s), found}
}

func inIndexByte(ex *Exec, fn *ssa.Function, a []Value, g *Term, w string) Value {
	s, c := a[0].(*Term), a[1].(*Term)
	if c.op != OpConst {
		unsupported("strings.IndexByte with a symbolic byte at %s", w)
	}
	if s.Liftable() {
		return lift(SBV, func(cs []*Term) *Term { return BV(int64(strings.IndexByte(cs[0].s, byte(c.i)))) }, s)
	}
	return intToBV(IndexOf(s, Str(string([]byte{byte(c.i)})), IntC(0)))
}

// the content of a strings.Builder / bytes.Buffer: a builder object of its own (Idx < 0) or a struct
// field / array element holding the content by value
func builderGet(t PtrTarget) *Term {
	if t.Idx < 0 {
		return t.Obj.cells[0].(*Term)
	}
	return subGet(t.Obj.cells[t.Idx], subPath(t.Sub)).(*Term)
}

func builderSet(t PtrTarget, v *Term) {
	if t.Idx < 0 {
		t.Obj.cells[0] = v
		return
	}
	t.Obj.cells[t.Idx] = subSet(t.Obj.cells[t.Idx], subPath(t.Sub), func(Value) Value { return v })
}

func inBuilderLen(ex *Exec, fn *ssa.Function, a []Value, g *Term, w string) Value {
	return StrLenBV(inBuilderString(ex, nil, a[:1], g, w).(*Term))
}

func inBuilderReset(ex *Exec, fn *ssa.Function, a []Value, g *Term, w string) Value {
	for _, t := range a[0].(*PtrVal).T {
		if t.Obj == nil {
			ex.panicIf(And(g, t.G), "nil builder at "+w)
			continue
		}
		builderSet(t, Ite(And(g, t.G), Str(""), builderGet(t)))
	}
	return nil
}

func inBuilderWriteByte(ex *Exec, fn *ssa.Function, a []Value, g *Term, w string) Value {
	c := a[1].(*Term)
	if c.op != OpConst {
		unsupported("WriteByte of a symbolic byte at %s", w)
	}
	inBuilderWrite(ex, nil, []Value{a[0], Str(string([]byte{byte(c.i)}))}, g, w)
	return newErrNil(len(ex.errNames))
}

func inBuilderWriteRune(ex *Exec, fn *ssa.Function, a []Value, g *Term, w string) Value {
	c := a[1].(*Term)
	if c.op != OpConst {
		unsupported("WriteRune of a symbolic rune at %s", w)
	}
	str := string(rune(c.i))
	inBuilderWrite(ex, nil, []Value{a[0], Str(str)}, g, w)
	return TupleVal{BV(int64(len(str))), newErrNil(len(ex.errNames))}
}

// fmt.Errorf: a fresh error identity; with %w it also matches whatever the wrapped error matches.
func inErrorf(ex *Exec, fn *ssa.Function, a []Value, g *Term, w string) Value {
	f := a[0].(*Term)
	if !isStrConst(f) {
		unsupported("fmt.Errorf with a symbolic format at %s", w)
	}
	va := a[1].(*SliceVal)
	ex.errNames = append(ex.errNames, "fmt.Errorf@"+w)
	n := len(ex.errNames)
	e := &ErrVal{Nil: False, Bits: make([]*Term, n)}
	for i := range e.Bits {
		e.Bits[i] = Bool(i == n-1)
	}
	// position of %w among the verbs
	ai := 0
	s := f.s
	for i := 0; i < len(s); i++ {
		if s[i] != '%' {
			continue
		}
		j := i + 1
		for j < len(s) && strings.IndexByte("+-# 0123456789.", s[j]) >= 0 {
			j++
		}
		if j >= len(s) {
			break
		}
		if s[j] == '%' {
			i = j
			continue
		}
		if s[j] == 'w' && ai < len(va.Elems) {
			var wrapped *ErrVal
			switch x := va.Elems[ai].(type) {
			case *ErrVal:
				wrapped = x
			case *IfaceVal:
				wrapped, _ = x.V.(*ErrVal)
			}
			if wrapped == nil {
				unsupported("fmt.Errorf %%w of %T at %s", va.Elems[ai], w)
			}
			for k := 0; k < n-1; k++ {
				e.Bits[k] = Or(e.Bits[k], And(Not(wrapped.Nil), wrapped.bit(k)))
			}
		}
		ai++
		i = j
	}
	return e
}

func writerTarget(v Value, w string) Value {
	iv, ok := v.(*IfaceVal)
	if !ok || !(namedIs(iv.Typ, "bytes", "Buffer") || namedIs(iv.Typ, "strings", "Builder")) {
		unsupported("formatted write to %T at %s", v, w)
	}
	return iv.V
}

func inFprintf(ex *Exec, fn *ssa.Function, a []Value, g *Term, w string) Value {
	dst := writerTarget(a[0], w)
	str := inSprintf(ex, nil, a[1:], g, w).(*Term)
	inBuilderWrite(ex, nil, []Value{dst, str}, g, w)
	return TupleVal{StrLenBV(str), newErrNil(len(ex.errNames))}
}

func sprintArgs(ex *Exec, va *SliceVal, g *Term, w string) *Term {
	var parts []*Term
	for _, e := range va.Elems {
		parts = append(parts, ex.fmtValue(e, 'v', g, w))
	}
	return Concat(parts...)
}

func inSprint(ex *Exec, fn *ssa.Function, a []Value, g *Term, w string) Value {
	va := a[0].(*SliceVal)
	if len(va.Elems) > 1 {
		unsupported("fmt.Sprint with several operands (spacing rules) at %s", w)
	}
	return sprintArgs(ex, va, g, w)
}

func inFprint(ex *Exec, fn *ssa.Function, a []Value, g *Term, w string) Value {
	dst := writerTarget(a[0], w)
	va := a[1].(*SliceVal)
	if len(va.Elems) > 1 {
		unsupported("fmt.Fprint with several operands (spacing rules) at %s", w)
	}
	str := sprintArgs(ex, va, g, w)
	inBuilderWrite(ex, nil, []Value{dst, str}, g, w)
	return TupleVal{StrLenBV(str), newErrNil(len(ex.errNames))}
}

// sync.Once (sequential semantics): the function runs on the first call only.
func inOnceDo(ex *Exec, fn *ssa.Function, a []Value, g *Term, w string) Value {
	p := a[0].(*PtrVal)
	fv, ok := a[1].(*FuncVal)
	if !ok || fv.Fn == nil {
		unsupported("sync.Once.Do with %T at %s", a[1], w)
	}
	if len(p.T) != 1 || p.T[0].Obj == nil || p.T[0].Idx < 0 {
		unsupported("sync.Once reached through an ambiguous or nil pointer at %s", w)
	}
	t := p.T[0]
	done := subGet(t.Obj.cells[t.Idx], subPath(t.Sub)).(*Term)
	run := And(g, Not(done))
	t.Obj.cells[t.Idx] = subSet(t.Obj.cells[t.Idx], subPath(t.Sub), func(Value) Value { return Or(done, g) })
	if !run.IsFalse() {
		ex.callFunction(fv.Fn, nil, fv.Bind, run)
	}
	return nil
}

// io.ReadAll: everything up to EOF; on a failing reader the data read before the failure and the error
func inReadAll(ex *Exec, fn *ssa.Function, a []Value, g *Term, w string) Value {
	buf := ex.heap.newObj(KBuilder, nil, 1, "bytebuf")
	buf.born = g
	buf.cells[0] = Str("")
	dst := &IfaceVal{Nil: False, Typ: bytesBufferType(ex), V: ptrTo(buf, -1)}
	r := inIOCopy(ex, nil, []Value{dst, a[0]}, g, w).(TupleVal)
	content := buf.cells[0].(*Term)
	return TupleVal{&BytesVal{Obj: buf, N: StrLenBV(content), Cap: 1 << 30}, r[1]}
}

// language.Tag.String(): the tags the models distinguish print as their BCP 47 names; every other tag
// prints as some other string (uninterpreted, different from the known ones)
func inTagString(ex *Exec, fn *ssa.Function, a []Value, g *Term, w string) Value {
	t := a[0].(*Term)
	return ex.tagString(t)
}

// ---------------------------------------------------------------------------
// strings

func inSplit(ex *Exec, fn *ssa.Function, args []Value, g *Term, where string) Value {
	s := args[0].(*Term)
	sepT := args[1].(*Term)
	if !isStrConst(sepT) || len(sepT.s) != 1 {
		unsupported("strings.Split with non-constant or multi-byte separator at %s", where)
	}
	return splitTerm(ex, s, sepT.s[0], where)
}

func splitTerm(ex *Exec, s *Term, sep byte, where string) *SliceVal {
	seps := string(sep)
	if s.Liftable() {
		// lifted: per-position case lists
		max := 0
		for _, c := range casesOf(s) {
			if n := strings.Count(c.V.s, seps) + 1; n > max {
				max = n
			}
		}
		sv := &SliceVal{Nil: False}
		sv.Len = lift(SBV, func(cs []*Term) *Term { return BV(int64(strings.Count(cs[0].s, seps) + 1)) }, s)
		for i := 0; i < max; i++ {
			ii := i
			sv.Elems = append(sv.Elems, lift(SStr, func(cs []*Term) *Term {
				p := strings.Split(cs[0].s, seps)
				if ii < len(p) {
					return Str(p[ii])
				}
				return Str("")
			}, s))
		}
		return sv
	}
	if s.op == OpSegStr && s.s[0] == sep {
		n, segs := segParts(s)
		sv := &SliceVal{Len: n, Nil: False}
		for _, x := range segs {
			sv.Elems = append(sv.Elems, x)
		}
		return sv
	}
	if s.op == OpIte {
		a := splitTerm(ex, s.args[1], sep, where)
		b := splitTerm(ex, s.args[2], sep, where)
		return iteValue(s.args[0], a, b).(*SliceVal)
	}
	if segs, ok := splitConcat(s, sep); ok {
		sv := &SliceVal{Len: BV(int64(len(segs))), Nil: False}
		for _, x := range segs {
			sv.Elems = append(sv.Elems, x)
		}
		return sv
	}
	if s.op == OpConcat {
		// a lifted part whose constants contain different numbers of separators: split it by count
		for i, p := range s.args {
			if p.op != OpCases || noByte(p, sep) {
				continue
			}
			groups := map[int][]Case{}
			var order []int
			for _, k := range p.cases {
				c := strings.Count(k.V.s, seps)
				if _, ok := groups[c]; !ok {
					order = append(order, c)
				}
				groups[c] = append(groups[c], k)
			}
			if len(order) < 2 {
				continue
			}
			mk := func(x *Term) *Term {
				parts := make([]*Term, len(s.args))
				copy(parts, s.args)
				parts[i] = x
				return Concat(parts...)
			}
			var acc *SliceVal
			for gi := len(order) - 1; gi >= 0; gi-- {
				cs := groups[order[gi]]
				var gs []*Term
				for _, k := range cs {
					gs = append(gs, k.G)
				}
				sub := splitTerm(ex, mk(mkCases(SStr, cs)), sep, where)
				if acc == nil {
					acc = sub
				} else {
					acc = iteValue(Or(gs...), sub, acc).(*SliceVal)
				}
			}
			return acc
		}
		// distribute over an ITE part
		for i, p := range s.args {
			if p.op == OpIte {
				mk := func(x *Term) *Term {
					parts := make([]*Term, len(s.args))
					copy(parts, s.args)
					parts[i] = x
					return ConcatSeg(parts...)
				}
				a := splitTerm(ex, mk(p.args[1]), sep, where)
				b := splitTerm(ex, mk(p.args[2]), sep, where)
				return iteValue(p.args[0], a, b).(*SliceVal)
			}
		}
		unsupported("strings.Split on a concatenation whose parts may contain the separator at %s: %v", where, s.str(3))
	}
	// single free string: indexof model, exact for <= 2 separators
	sepC := Str(seps)
	i1 := IndexOf(s, sepC, IntC(0))
	none := IntBin(OpIntLt, i1, IntC(0))
	i2 := IndexOf(s, sepC, IntBin(OpIntAdd, i1, IntC(1)))
	one := And(Not(none), IntBin(OpIntLt, i2, IntC(0)))
	slen := StrLenInt(s)
	e0 := Ite(none, s, Substr(s, IntC(0), i1))
	// element 1: between first and second separator (or to end)
	end1 := Ite2Int(one, slen, i2)
	e1 := Substr(s, IntBin(OpIntAdd, i1, IntC(1)), IntBin(OpIntSub, IntBin(OpIntSub, end1, i1), IntC(1)))
	// more than 2 elements: length is an unknown integer >= 3
	ex.permCount++
	nmore := NewVar(fmt.Sprintf("splitlen%d", ex.permCount), SBV)
	ex.assumptions = append(ex.assumptions, BVBin(OpBVSLe, BV(3), nmore))
	ln := Ite(none, BV(1), Ite(one, BV(2), nmore))
	return &SliceVal{Elems: []Value{e0, e1}, Len: ln, Nil: False}
}

func Ite2Int(c, a, b *Term) *Term {
	if c.IsTrue() {
		return a
	}
	if c.IsFalse() {
		return b
	}
	return mkApp(OpIte, SInt, "", c, a, b)
}

func inJoin(ex *Exec, fn *ssa.Function, args []Value, g *Term, where string) Value {
	s := args[0].(*SliceVal)
	sep := args[1].(*Term)
	if !isStrConst(sep) {
		unsupported("strings.Join with symbolic separator at %s", where)
	}
	elems := make([]*Term, len(s.Elems))
	for i, e := range s.Elems {
		if e == nil {
			elems[i] = Str("")
		} else {
			elems[i] = e.(*Term)
		}
	}
	return JoinSlice(elems, s.Len, sep.s)
}

func inBuilderWrite(ex *Exec, fn *ssa.Function, args []Value, g *Term, where string) Value {
	p := args[0].(*PtrVal)
	x := args[1].(*Term)
	for _, t := range p.T {
		if t.Obj == nil {
			ex.panicIf(And(g, t.G), "nil builder at "+where)
			continue
		}
		c := And(g, t.G)
		old := builderGet(t)
		builderSet(t, Ite(c, Concat(old, x), old))
	}
	return TupleVal{StrLenBV(x), newErrNil(len(ex.errNames))}
}

// Write(p []byte) with an abstract byte view: the view must be exactly the data last read into its buffer
func inBuilderWriteBytes(ex *Exec, fn *ssa.Function, args []Value, g *Term, where string) Value {
	bv, ok := args[1].(*BytesVal)
	if !ok {
		unsupported("Write of %T at %s", args[1], where)
	}
	content := bv.Obj.cells[0].(*Term)
	if bv.N != StrLenBV(content) {
		// a different length than what the buffer holds: prefix of the content
		unsupported("Write of a byte view whose length is not the length of the data last read (at %s)", where)
	}
	return inBuilderWrite(ex, fn, []Value{args[0], content}, g, where)
}

func inBuilderString(ex *Exec, fn *ssa.Function, args []Value, g *Term, where string) Value {
	p := args[0].(*PtrVal)
	var acc Value
	for i := len(p.T) - 1; i >= 0; i-- {
		t := p.T[i]
		var x Value
		if t.Obj == nil {
			x = Str("") // (*Builder)(nil).String() panics in reality for Builder; Buffer returns "<nil>"
			ex.panicIf(And(g, t.G), "nil builder at "+where)
		} else {
			x = builderGet(t)
		}
		if acc == nil {
			acc = x
		} else {
			acc = iteValue(t.G, x, acc)
		}
	}
	return acc
}

func inNoop(ex *Exec, fn *ssa.Function, a []Value, g *Term, w string) Value { return nil }

func liftedMath1(f func(float64) float64) intrinsic {
	return func(ex *Exec, fn *ssa.Function, a []Value, g *Term, w string) Value {
		t := a[0].(*Term)
		if !t.Liftable() {
			unsupported("%s on a symbolic float at %s", fn, w)
		}
		return lift(SFP, func(cs []*Term) *Term { return FP(f(cs[0].Float())) }, t)
	}
}

func liftedMath2(f func(float64, float64) float64) intrinsic {
	return func(ex *Exec, fn *ssa.Function, a []Value, g *Term, w string) Value {
		x, y := a[0].(*Term), a[1].(*Term)
		if !allLiftable(x, y) {
			unsupported("%s on symbolic floats at %s", fn, w)
		}
		return lift(SFP, func(cs []*Term) *Term { return FP(f(cs[0].Float(), cs[1].Float())) }, x, y)
	}
}

func liftedStr1(f func(string) string) intrinsic {
	return func(ex *Exec, fn *ssa.Function, a []Value, g *Term, w string) Value {
		t := a[0].(*Term)
		if !t.Liftable() {
			unsupported("%s on a symbolic string at %s", fn, w)
		}
		return lift(SStr, func(cs []*Term) *Term { return Str(f(cs[0].s)) }, t)
	}
}

func liftedStr2(f func(string, string) string) intrinsic {
	return func(ex *Exec, fn *ssa.Function, a []Value, g *Term, w string) Value {
		x, y := a[0].(*Term), a[1].(*Term)
		if !allLiftable(x, y) {
			unsupported("%s on symbolic strings at %s", fn, w)
		}
		return lift(SStr, func(cs []*Term) *Term { return Str(f(cs[0].s, cs[1].s)) }, x, y)
	}
}

func liftedStr2Bool(f func(string, string) bool) intrinsic {
	return func(ex *Exec, fn *ssa.Function, a []Value, g *Term, w string) Value {
		x, y := a[0].(*Term), a[1].(*Term)
		if !allLiftable(x, y) {
			unsupported("%s on symbolic strings at %s", fn, w)
		}
		return lift(SBool, func(cs []*Term) *Term { return Bool(f(cs[0].s, cs[1].s)) }, x, y)
	}
}

// HasPrefix / HasSuffix: lifted natively; symbolic with a constant affix via length and substring
func inHasPrefix(ex *Exec, fn *ssa.Function, a []Value, g *Term, w string) Value {
	x, y := a[0].(*Term), a[1].(*Term)
	if allLiftable(x, y) {
		return lift(SBool, func(cs []*Term) *Term { return Bool(strings.HasPrefix(cs[0].s, cs[1].s)) }, x, y)
	}
	if !isStrConst(y) {
		unsupported("strings.HasPrefix with a symbolic prefix at %s", w)
	}
	return Eq(Substr(x, IntC(0), IntC(int64(len(y.s)))), y)
}

func inHasSuffix(ex *Exec, fn *ssa.Function, a []Value, g *Term, w string) Value {
	x, y := a[0].(*Term), a[1].(*Term)
	if allLiftable(x, y) {
		return lift(SBool, func(cs []*Term) *Term { return Bool(strings.HasSuffix(cs[0].s, cs[1].s)) }, x, y)
	}
	if !isStrConst(y) {
		unsupported("strings.HasSuffix with a symbolic suffix at %s", w)
	}
	n := IntC(int64(len(y.s)))
	return And(IntBin(OpIntLe, n, StrLenInt(x)), Eq(Substr(x, IntBin(OpIntSub, StrLenInt(x), n), n), y))
}

// strings.TrimPrefix(s, "/") on structured strings (used by harnesses to build v2 vectors)
func inTrimPrefix(ex *Exec, fn *ssa.Function, args []Value, g *Term, where string) Value {
	s, p := args[0].(*Term), args[1].(*Term)
	if allLiftable(s, p) {
		return lift(SStr, func(cs []*Term) *Term { return Str(strings.TrimPrefix(cs[0].s, cs[1].s)) }, s, p)
	}
	if !isStrConst(p) || len(p.s) != 1 {
		unsupported("strings.TrimPrefix with a non-constant or multi-byte prefix at %s", where)
	}
	return trimLead(s, p.s[0], where)
}

func trimLead(s *Term, c byte, where string) *Term {
	switch s.op {
	case OpConst:
		return Str(strings.TrimPrefix(s.s, string(c)))
	case OpCases:
		return lift(SStr, func(cs []*Term) *Term { return Str(strings.TrimPrefix(cs[0].s, string(c))) }, s)
	case OpIte:
		return Ite(s.args[0], trimLead(s.args[1], c, where), trimLead(s.args[2], c, where))
	case OpConcat:
		first := s.args[0]
		if first.Liftable() {
			// the first part decides, provided it is never empty
			for _, k := range casesOf(first) {
				if k.V.s == "" {
					unsupported("TrimPrefix: possibly empty first part at %s", where)
				}
			}
			parts := append([]*Term{trimLead(first, c, where)}, s.args[1:]...)
			return Concat(parts...)
		}
	case OpSegStr:
		if s.s[0] == c {
			n, segs := segParts(s)
			// leading separator <=> first segment empty and at least two segments
			if isStrConst(segs[0]) && segs[0].s == "" {
				min := int64(1 << 30)
				for _, k := range casesOf(n) {
					if k.V.i < min {
						min = k.V.i
					}
				}
				if min >= 2 {
					return mkSegStr(c, BVBin(OpBVSub, n, BV(1)), segs[1:])
				}
				// n == 1 means the empty string: nothing to trim
				var one *Term = False
				for _, k := range casesOf(n) {
					if k.V.i == 1 {
						one = k.G
					}
				}
				rest := mkSegStr(c, Ite(one, BV(1), BVBin(OpBVSub, n, BV(1))), append([]*Term{}, segs[1:]...))
				if len(segs) < 2 {
					return Str("")
				}
				_ = rest
				return Ite(one, Str(""), mkSegStr(c, Ite(one, BV(1), BVBin(OpBVSub, n, BV(1))), segs[1:]))
			}
		}
	}
	unsupported("strings.TrimPrefix on %v at %s", s.str(2), where)
	return nil
}

// sync.Map as an ordinary map keyed by the dynamic value of the key (one key type per map assumed)
func ifacePayload(v Value, where string) (Value, *IfaceVal) {
	iv, ok := v.(*IfaceVal)
	if !ok {
		unsupported("sync.Map key/value %T at %s", v, where)
	}
	switch iv.V.(type) {
	case *Term, *StructVal:
	default:
		unsupported("sync.Map key/value payload %T at %s", iv.V, where)
	}
	return iv.V, iv
}

// keyEq: equality of two map keys (scalars or structs of scalars); keys of different dynamic type differ.
func keyEq(a, b Value) *Term {
	ta, ok1 := a.(*Term)
	tb, ok2 := b.(*Term)
	if ok1 && ok2 {
		if ta.sort != tb.sort {
			return False
		}
		return Eq(ta, tb)
	}
	if ok1 != ok2 {
		return False
	}
	sa, ok1 := a.(*StructVal)
	sb, ok2 := b.(*StructVal)
	if !ok1 || !ok2 || len(sa.F) != len(sb.F) || !types.Identical(sa.Typ, sb.Typ) {
		return False
	}
	var cs []*Term
	for i := range sa.F {
		cs = append(cs, keyEq(sa.F[i], sb.F[i]))
	}
	return And(cs...)
}

func syncMapLookup(ex *Exec, m *PtrVal, key Value, g *Term) (Value, *Term) {
	var val Value = &IfaceVal{Nil: True}
	ok := False
	for _, t := range m.T {
		if t.Obj == nil {
			continue
		}
		for _, e := range t.Obj.entries {
			hit := And(t.G, e.G, keyEq(e.Key, key))
			if hit.IsFalse() {
				continue
			}
			val = iteValue(hit, e.Val, val)
			ok = Or(hit, ok)
		}
	}
	return val, ok
}

func inSyncMapLoad(ex *Exec, fn *ssa.Function, args []Value, g *Term, where string) Value {
	key, _ := ifacePayload(args[1], where)
	v, ok := syncMapLookup(ex, args[0].(*PtrVal), key, g)
	return TupleVal{v, ok}
}

func inSyncMapStore(ex *Exec, fn *ssa.Function, args []Value, g *Term, where string) Value {
	key, _ := ifacePayload(args[1], where)
	ex.mapUpdate(args[0].(*PtrVal), key, args[2], g)
	return nil
}

func inSyncMapLoadOrStore(ex *Exec, fn *ssa.Function, args []Value, g *Term, where string) Value {
	key, _ := ifacePayload(args[1], where)
	m := args[0].(*PtrVal)
	v, ok := syncMapLookup(ex, m, key, g)
	ex.mapUpdate(m, key, args[2], And(g, Not(ok)))
	return TupleVal{iteValue(ok, v, args[2]), ok}
}

func inContains(ex *Exec, fn *ssa.Function, args []Value, g *Term, where string) Value {
	a, b := args[0].(*Term), args[1].(*Term)
	if allLiftable(a, b) {
		return lift(SBool, func(cs []*Term) *Term { return Bool(strings.Contains(cs[0].s, cs[1].s)) }, a, b)
	}
	return Not(IntBin(OpIntLt, IndexOf(a, b, IntC(0)), IntC(0)))
}

// fmt.Sprintf: %v / %s with Stringer support for symbolic values; any other verb (with flags,
// width, precision) on lifted constants is formatted natively per case.
func inSprintf(ex *Exec, fn *ssa.Function, args []Value, g *Term, where string) Value {
	f := args[0].(*Term)
	if !isStrConst(f) {
		unsupported("Sprintf with symbolic format at %s", where)
	}
	va := args[1].(*SliceVal)
	var parts []*Term
	ai := 0
	s := f.s
	for len(s) > 0 {
		i := strings.IndexByte(s, '%')
		if i < 0 {
			parts = append(parts, Str(s))
			break
		}
		parts = append(parts, Str(s[:i]))
		j := i + 1
		for j < len(s) && strings.IndexByte("+-# 0123456789.", s[j]) >= 0 {
			j++
		}
		if j >= len(s) {
			unsupported("bad format at %s", where)
		}
		spec := s[i : j+1]
		verb := s[j]
		s = s[j+1:]
		if verb == '%' {
			parts = append(parts, Str("%"))
			continue
		}
		if ai >= len(va.Elems) {
			unsupported("missing Sprintf argument at %s", where)
		}
		if (verb == 'v' || verb == 's') && len(spec) == 2 {
			parts = append(parts, ex.fmtValue(va.Elems[ai], verb, g, where))
		} else {
			parts = append(parts, ex.fmtNative(va.Elems[ai], spec, where))
		}
		ai++
	}
	return Concat(parts...)
}

func (ex *Exec) fmtNative(v Value, spec string, where string) *Term {
	iv, ok := v.(*IfaceVal)
	if !ok {
		unsupported("Sprintf argument %T at %s", v, where)
	}
	t, ok := iv.V.(*Term)
	if !ok || !t.Liftable() {
		unsupported("Sprintf(%q) of a symbolic or non-scalar value at %s", spec, where)
	}
	return lift(SStr, func(cs []*Term) *Term {
		c := cs[0]
		switch c.sort {
		case SBV:
			return Str(fmt.Sprintf(spec, c.i))
		case SStr:
			return Str(fmt.Sprintf(spec, c.s))
		case SFP:
			return Str(fmt.Sprintf(spec, c.Float()))
		case SBool:
			return Str(fmt.Sprintf(spec, c.b))
		}
		unsupported("Sprintf(%q) of sort %v at %s", spec, c.sort, where)
		return nil
	}, t)
}

func (ex *Exec) fmtValue(v Value, verb byte, g *Term, where string) *Term {
	iv, ok := v.(*IfaceVal)
	if !ok {
		unsupported("Sprintf argument %T at %s", v, where)
	}
	if iv.Typ == nil {
		unsupported("Sprintf of nil interface at %s", where)
	}
	// Stringer / error first (as fmt does for %v and %s)
	if verb != 'd' {
		var m *ssa.Function
		if sel := ex.prog.MethodSets.MethodSet(iv.Typ).Lookup(nil, "String"); sel != nil {
			m = ex.prog.MethodValue(sel)
		}
		if m != nil {
			sig := m.Signature
			if sig.Params().Len() == 0 && sig.Results().Len() == 1 {
				r := ex.callResolved(m, []Value{iv.V}, nil, g, where)
				return r.(*Term)
			}
		}
	}
	t, ok := iv.V.(*Term)
	if !ok {
		unsupported("Sprintf of %v at %s", iv.Typ, where)
	}
	switch t.sort {
	case SStr:
		return t
	case SFP:
		if t.Liftable() {
			return lift(SStr, func(cs []*Term) *Term { return Str(fmt.Sprintf("%v", cs[0].Float())) }, t)
		}
	case SBV:
		if t.Liftable() {
			return lift(SStr, func(cs []*Term) *Term { return Str(strconv.FormatInt(cs[0].i, 10)) }, t)
		}
	case SBool:
		if t.Liftable() {
			return lift(SStr, func(cs []*Term) *Term { return Str(strconv.FormatBool(cs[0].b)) }, t)
		}
	}
	unsupported("Sprintf of symbolic %v at %s", iv.Typ, where)
	return nil
}

// ---------------------------------------------------------------------------
// errors

func inErrorsNew(ex *Exec, fn *ssa.Function, args []Value, g *Term, where string) Value {
	msg := args[0].(*Term)
	name := "errors.New@" + where
	if isStrConst(msg) {
		name = msg.s
	}
	ex.errNames = append(ex.errNames, name)
	e := &ErrVal{Nil: False, Bits: make([]*Term, len(ex.errNames))}
	for i := range e.Bits {
		e.Bits[i] = Bool(i == len(ex.errNames)-1)
	}
	return e
}

func (e *ErrVal) bit(i int) *Term {
	if i < len(e.Bits) {
		return e.Bits[i]
	}
	return False
}

func inErrIs(ex *Exec, fn *ssa.Function, args []Value, g *Term, where string) Value {
	e := args[0].(*ErrVal)
	t := args[1].(*ErrVal)
	// target must be a single identity (a sentinel) or nil
	var ds []*Term
	n := len(ex.errNames)
	// errors.Is(nil, nil) is true; errors.Is(err, nil) is err == nil
	ds = append(ds, And(e.Nil, t.Nil))
	for i := 1; i < n; i++ {
		tb := t.bit(i)
		if tb.IsFalse() {
			continue
		}
		// target "is" identity i only if it matches exactly that identity
		only := []*Term{Not(t.Nil), tb}
		for j := 0; j < n; j++ {
			if j != i {
				only = append(only, Not(t.bit(j)))
			}
		}
		ds = append(ds, And(And(only...), Not(e.Nil), e.bit(i)))
	}
	// a target that is itself a wrapped/multi-identity error is outside the model
	multi := False
	for i := 0; i < n; i++ {
		for j := i + 1; j < n; j++ {
			multi = Or(multi, And(t.bit(i), t.bit(j)))
		}
	}
	if !multi.IsFalse() || !t.bit(0).IsFalse() {
		if !And(g, Or(multi, t.bit(0))).IsFalse() {
			ex.unwinds = append(ex.unwinds, guarded{And(g, Not(t.Nil), Or(multi, t.bit(0))), "errors.Is with a non-sentinel target at " + where})
		}
	}
	return Or(ds...)
}

func inErrsWrap(ex *Exec, fn *ssa.Function, args []Value, g *Term, where string) Value {
	e := args[0].(*ErrVal)
	opts := args[1].(*SliceVal)
	n := len(ex.errNames)
	r := &ErrVal{Nil: e.Nil, Bits: make([]*Term, n)}
	for i := 0; i < n; i++ {
		r.Bits[i] = e.bit(i)
	}
	// every represented option counts while its index is below the (possibly symbolic) option count
	if opts.Len.op == OpConst && int(opts.Len.i) > len(opts.Elems) {
		unsupported("errs.Wrap options beyond the represented prefix at %s", where)
	}
	for i := 0; i < len(opts.Elems); i++ {
		active := BVBin(OpBVSLt, BV(int64(i)), opts.Len)
		if active.IsFalse() || opts.Elems[i] == nil {
			continue
		}
		o, ok := opts.Elems[i].(*OpaqueVal)
		if !ok || o.Kind != "errs.opt" {
			unsupported("errs.Wrap option %T at %s", opts.Elems[i], where)
		}
		isCause := o.Args[0].(*Term)
		c, ok := o.Args[1].(*ErrVal)
		if !ok {
			unsupported("errs.WithCause of %T at %s", o.Args[1], where)
		}
		on := And(active, isCause, Not(c.Nil))
		if on.IsFalse() {
			continue
		}
		for j := 0; j < n; j++ {
			r.Bits[j] = Or(r.Bits[j], And(on, c.bit(j)))
		}
	}
	// a nil error stays nil and matches nothing
	for j := 0; j < n; j++ {
		r.Bits[j] = And(Not(r.Nil), r.Bits[j])
	}
	return r
}

// ---------------------------------------------------------------------------
// math / strconv

func goPowChain(x float64, n int) float64 { return math.Pow(x, float64(n)) }

// powChain: math.Pow(x, n) for a constant integer n >= 1 as the multiplication chain of Go's pow loop
// (successive squarings, products taken in the order of the bits of n). Frexp/Ldexp scalings are exact in
// the normal range, so the chain on the values rounds exactly like the chain on the mantissas.
func powChain(x *Term, n int64) *Term {
	var a *Term
	sq := x
	for i := n; i != 0; i >>= 1 {
		if i&1 == 1 {
			if a == nil {
				a = sq
			} else {
				a = FPOp(OpFPMul, a, sq)
			}
		}
		if i>>1 != 0 {
			sq = FPOp(OpFPMul, sq, sq)
		}
	}
	return a
}

func goPowChainNative(x float64, n int64) float64 {
	var a float64
	first := true
	sq := x
	for i := n; i != 0; i >>= 1 {
		if i&1 == 1 {
			if first {
				a, first = sq, false
			} else {
				a = a * sq
			}
		}
		if i>>1 != 0 {
			sq = sq * sq
		}
	}
	return a
}

func inPow(ex *Exec, fn *ssa.Function, args []Value, g *Term, where string) Value {
	a, b := args[0].(*Term), args[1].(*Term)
	if pureFP && b.op == OpConst && a.op != OpConst {
		y := b.Float()
		if y >= 1 && y == math.Trunc(y) && y < 64 {
			return powChain(a, int64(y))
		}
	}
	if allLiftable(a, b) {
		return lift(SFP, func(cs []*Term) *Term { return FP(math.Pow(cs[0].Float(), cs[1].Float())) }, a, b)
	}
	unsupported("math.Pow on symbolic floats at %s", where)
	return nil
}

func inFormatFloat(ex *Exec, fn *ssa.Function, args []Value, g *Term, where string) Value {
	f := args[0].(*Term)
	fmtb := args[1].(*Term)
	prec := args[2].(*Term)
	bits := args[3].(*Term)
	if !allLiftable(f, fmtb, prec, bits) {
		unsupported("strconv.FormatFloat on symbolic float at %s", where)
	}
	return lift(SStr, func(cs []*Term) *Term {
		return Str(strconv.FormatFloat(cs[0].Float(), byte(cs[1].i), int(cs[2].i), int(cs[3].i)))
	}, f, fmtb, prec, bits)
}

// ---------------------------------------------------------------------------
// io / template (abstract)

// Abstract reader: OpaqueVal{Kind:"reader", Args:[content Str, fails Bool, partial Str]}
func inIOCopy(ex *Exec, fn *ssa.Function, args []Value, g *Term, where string) Value {
	dst, ok := args[0].(*IfaceVal)
	if !ok || !namedIs(dst.Typ, "bytes", "Buffer") {
		unsupported("io.Copy to %T at %s", args[0], where)
	}
	if o, ok := isChunkReader(args[1]); ok {
		// io.Copy reads until EOF, including data returned together with EOF; a failure keeps what was read before
		c1, c2, fails := o.cells[0].(*Term), o.cells[1].(*Term), o.cells[3].(*Term)
		if iv, ok := args[1].(*IfaceVal); ok {
			ex.panicIf(And(g, iv.Nil), "io.Copy from nil reader at "+where)
		}
		written := Ite(fails, c1, Concat(c1, c2))
		inBuilderWrite(ex, nil, []Value{dst.V, written}, g, where)
		o.cells[4] = iteValue(g, BV(3), o.cells[4])
		e := &ErrVal{Nil: Not(fails), Bits: make([]*Term, len(ex.errNames))}
		for i := range e.Bits {
			e.Bits[i] = False
		}
		e.Bits[0] = fails
		return TupleVal{StrLenBV(written), e}
	}
	var rd *OpaqueVal
	switch r := args[1].(type) {
	case *OpaqueVal:
		rd = r
	case *IfaceVal:
		if o, ok := r.V.(*OpaqueVal); ok && o.Kind == "reader" {
			rd = o
			ex.panicIf(And(g, r.Nil), "io.Copy from nil reader at "+where)
		} else if namedIs(r.Typ, "bytes", "Buffer") {
			// reading from a buffer: whole content, never fails
			content := inBuilderString(ex, nil, []Value{r.V}, g, where).(*Term)
			rd = &OpaqueVal{Kind: "reader", Args: []Value{content, False, Str("")}}
		}
	}
	if rd == nil || rd.Kind != "reader" {
		unsupported("io.Copy from %T at %s", args[1], where)
	}
	content, fails, partial := rd.Args[0].(*Term), rd.Args[1].(*Term), rd.Args[2].(*Term)
	written := Ite(fails, partial, content)
	inBuilderWrite(ex, nil, []Value{dst.V, written}, g, where)
	e := &ErrVal{Nil: Not(fails), Bits: make([]*Term, len(ex.errNames))}
	for i := range e.Bits {
		e.Bits[i] = False
	}
	e.Bits[0] = fails // foreign error
	return TupleVal{StrLenBV(written), e}
}

func (ex *Exec) opaqueInvoke(rv *OpaqueVal, method string, args []Value, g *Term, where string) Value {
	unsupported("method %s on abstract %s at %s", method, rv.Kind, where)
	return nil
}

// template handle: OpaqueVal{Kind:"tmpl", Args:[text Str]}
func inTmplNew(ex *Exec, fn *ssa.Function, args []Value, g *Term, where string) Value {
	return &OpaqueVal{Kind: "tmpl", Args: []Value{Str("")}, X: "new"}
}

func inTmplParse(ex *Exec, fn *ssa.Function, args []Value, g *Term, where string) Value {
	text := args[1].(*Term)
	perr := UF("tmplParseFails", SBool, text)
	e := &ErrVal{Nil: Not(perr), Bits: make([]*Term, len(ex.errNames))}
	for i := range e.Bits {
		e.Bits[i] = False
	}
	e.Bits[0] = perr
	h := &OpaqueVal{Kind: "tmpl", Args: []Value{text}, X: "parsed"}
	// on failure Parse returns (nil, err); the handle is only used on success
	return TupleVal{h, e}
}

// Clone of a template handle: an independent handle with the same (empty or parsed) state; never fails
// for templates that have not been executed (text/template documents an error only after execution).
func inTmplClone(ex *Exec, fn *ssa.Function, args []Value, g *Term, where string) Value {
	h, ok := args[0].(*OpaqueVal)
	if !ok || h.Kind != "tmpl" {
		unsupported("Clone on %T at %s", args[0], where)
	}
	if h.Nil != nil {
		ex.panicIf(And(g, h.Nil), "Clone on a nil template at "+where)
	}
	return TupleVal{&OpaqueVal{Kind: "tmpl", Args: append([]Value(nil), h.Args...), X: h.X}, newErrNil(len(ex.errNames))}
}

func inTmplMust(ex *Exec, fn *ssa.Function, args []Value, g *Term, where string) Value {
	e := args[1].(*ErrVal)
	ex.panicIf(And(g, Not(e.Nil)), "template.Must with a non-nil error at "+where)
	return args[0]
}

// dataIdentity: a string term identifying the data object passed to Execute
func (ex *Exec) dataIdentity(v Value, where string) *Term {
	iv, ok := v.(*IfaceVal)
	if !ok {
		unsupported("template data %T at %s", v, where)
	}
	p, ok := iv.V.(*PtrVal)
	if !ok {
		unsupported("template data payload %T at %s", iv.V, where)
	}
	var acc *Term
	for i := len(p.T) - 1; i >= 0; i-- {
		t := p.T[i]
		id := BV(-1)
		if t.Obj != nil {
			id = BV(int64(t.Obj.id))
		}
		if acc == nil {
			acc = id
		} else {
			acc = Ite(t.G, id, acc)
		}
	}
	return acc
}

func inTmplExecute(ex *Exec, fn *ssa.Function, args []Value, g *Term, where string) Value {
	h, ok := args[0].(*OpaqueVal)
	if !ok || h.Kind != "tmpl" {
		unsupported("Execute on %T at %s", args[0], where)
	}
	text := h.Args[0].(*Term)
	if h.Nil != nil {
		ex.panicIf(And(g, h.Nil), "Execute on a nil template at "+where)
	}
	w, ok := args[1].(*IfaceVal)
	if !ok || !namedIs(w.Typ, "bytes", "Buffer") {
		unsupported("Execute into %T at %s", args[1], where)
	}
	data := ex.dataIdentity(args[2], where)
	fails := UF("tmplExecFails", SBool, text, data)
	out := UF("tmplExecOut", SStr, text, data)
	partial := UF("tmplExecPartial", SStr, text, data)
	inBuilderWrite(ex, nil, []Value{w.V, Ite(fails, partial, out)}, g, where)
	e := &ErrVal{Nil: Not(fails), Bits: make([]*Term, len(ex.errNames))}
	for i := range e.Bits {
		e.Bits[i] = False
	}
	e.Bits[0] = fails
	return e
}

// ---------------------------------------------------------------------------
// rationals (native)

func ratOf(t *Term) *big.Rat { return t.r }

func parseRat(s string) *big.Rat {
	r, ok := new(big.Rat).SetString(s)
	if !ok {
		unsupported("bad rational literal %q", s)
	}
	return r
}

func ratPow(a *big.Rat, n int64) *big.Rat {
	r := big.NewRat(1, 1)
	for i := int64(0); i < n; i++ {
		r.Mul(r, a)
	}
	return r
}

func ratFloor(a *big.Rat) *big.Int {
	q := new(big.Int)
	m := new(big.Int)
	q.DivMod(a.Num(), a.Denom(), m) // Euclidean: m >= 0, so q = floor
	return q
}

func ratCeil(a *big.Rat) *big.Int {
	f := ratFloor(a)
	if new(big.Rat).SetInt(f).Cmp(a) < 0 {
		f.Add(f, big.NewInt(1))
	}
	return f
}

// round half away from zero
func ratRound(a *big.Rat) *big.Int {
	half := big.NewRat(1, 2)
	if a.Sign() >= 0 {
		return ratFloor(new(big.Rat).Add(a, half))
	}
	return ratCeil(new(big.Rat).Sub(a, half))
}


func intToBV(t *Term) *Term {
	if t.Liftable() {
		return lift(SBV, func(cs []*Term) *Term { return BV(cs[0].i) }, t)
	}
	return mkApp(OpInt2BV, SBV, "", t)
}

// bytesBufferType: the named type bytes.Buffer (for interface values built by models)
func bytesBufferType(ex *Exec) types.Type {
	if p := ex.prog.ImportedPackage("bytes"); p != nil {
		if m := p.Type("Buffer"); m != nil {
			return types.NewPointer(m.Type())
		}
	}
	unsupported("package bytes is not loaded")
	return nil
}

// strconv.Atoi on a symbolic string, exactly: optional sign, then a non-empty run of decimal digits
// (SMT-LIB str.to_int is -1 otherwise); values outside int64 are a range error (clamped value).
func atoiSymbolic(ex *Exec, x *Term) Value {
	ln := StrLenInt(x)
	c0 := Substr(x, IntC(0), IntC(1))
	neg := Eq(c0, Str("-"))
	signed := Or(neg, Eq(c0, Str("+")))
	body := Ite(signed, Substr(x, IntC(1), IntBin(OpIntSub, ln, IntC(1))), x)
	n := mkApp(OpStrToInt, SInt, "", body)
	syntax := IntBin(OpIntLt, n, IntC(0))
	const maxI = int64(^uint64(0) >> 1)
	overPos := Not(IntBin(OpIntLe, n, IntC(maxI)))                         // n > 2^63-1
	overNeg := Not(IntBin(OpIntLe, IntBin(OpIntSub, n, IntC(1)), IntC(maxI))) // n > 2^63
	rangeErr := And(Not(syntax), Ite(neg, overNeg, overPos))
	bad := Or(syntax, rangeErr)
	pos := mkApp(OpInt2BV, SBV, "", n)
	ngv := mkApp(OpInt2BV, SBV, "", IntBin(OpIntSub, IntC(0), n))
	val := Ite(syntax, BV(0), Ite(neg, Ite(overNeg, BV(-maxI-1), ngv), Ite(overPos, BV(maxI), pos)))
	e := &ErrVal{Nil: Not(bad), Bits: make([]*Term, len(ex.errNames))}
	for i := range e.Bits {
		e.Bits[i] = False
	}
	e.Bits[0] = bad
	return TupleVal{val, e}
}
