package main

// Static scan over the SSA of the packages under test (C15/C16): stores to package-level
// variables outside package initialisers, goroutine creation, use of sync primitives.

import (
	"fmt"
	"strings"

	"golang.org/x/tools/go/ssa"
	"golang.org/x/tools/go/ssa/ssautil"
)

type scanResult struct {
	Functions    int      `json:"functions_scanned"`
	GlobalWrites []string `json:"global_writes_outside_init"`
	GoStmts      []string `json:"go_statements"`
	SyncUses     []string `json:"sync_uses"`
}

func rootGlobal(v ssa.Value) *ssa.Global {
	for {
		switch x := v.(type) {
		case *ssa.Global:
			return x
		case *ssa.FieldAddr:
			v = x.X
		case *ssa.IndexAddr:
			v = x.X
		case *ssa.UnOp:
			v = x.X
		default:
			return nil
		}
	}
}

func (w *World) staticScan() scanResult {
	var r scanResult
	for fn := range ssautil.AllFunctions(w.prog) {
		if fn.Pkg == nil || !strings.HasPrefix(fn.Pkg.Pkg.Path(), modulePath) || strings.Contains(fn.Pkg.Pkg.Path(), "/internal/zz") {
			continue
		}
		pos := w.prog.Fset.Position(fn.Pos())
		if strings.Contains(pos.Filename, "zz_verif_") || fn.Name() == "init" || strings.HasPrefix(fn.Name(), "init#") {
			continue
		}
		r.Functions++
		for _, b := range fn.Blocks {
			for _, ins := range b.Instrs {
				where := w.prog.Fset.Position(ins.Pos()).String()
				switch x := ins.(type) {
				case *ssa.Store:
					if g := rootGlobal(x.Addr); g != nil {
						r.GlobalWrites = append(r.GlobalWrites, fmt.Sprintf("%s: store to %s in %s", where, g.Name(), fn))
					}
				case *ssa.MapUpdate:
					if g := rootGlobal(x.Map); g != nil {
						r.GlobalWrites = append(r.GlobalWrites, fmt.Sprintf("%s: map update of %s in %s", where, g.Name(), fn))
					}
				case *ssa.Go:
					r.GoStmts = append(r.GoStmts, where)
				case *ssa.Call:
					if c := x.Common().StaticCallee(); c != nil && c.Pkg != nil {
						p := c.Pkg.Pkg.Path()
						if p == "sync" || p == "sync/atomic" {
							r.SyncUses = append(r.SyncUses, where+": "+c.String())
						}
					}
				}
			}
		}
	}
	return r
}
