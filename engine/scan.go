package main

// Static scan over the SSA of the packages under test (C15/C16): stores to package-level
// variables outside package initialisers, goroutine creation, use of sync primitives.

import (
	"fmt"
	"go/token"
	"go/types"
	"sort"
	"strings"

	"golang.org/x/tools/go/ssa"
	"golang.org/x/tools/go/ssa/ssautil"
)

type scanResult struct {
	Functions    int      `json:"functions_scanned"`
	GlobalWrites []string `json:"global_writes_outside_init"`
	GoStmts      []string `json:"go_statements"`
	SyncUses     []string `json:"sync_uses"`
	// uses of sync that the C16 argument does not cover (anything but sync.Map methods on scalar payloads and
	// sync.Once.Do whose initialised variables are only accessed after a dominating Do of the same Once)
	SyncUnmodelled []string `json:"sync_uses_outside_the_c16_argument"`
	OnceGuarded    []string `json:"once_initialised_globals"`
}

func rootGlobal(v ssa.Value) *ssa.Global {
	for {
		switch x := v.(type) {
		case *ssa.Global:
			return x
		case *ssa.FieldAddr:
			v = x.X
		case *ssa.IndexAddr:
			v = x.X
		case *ssa.UnOp:
			v = x.X
		default:
			return nil
		}
	}
}

func (w *World) staticScan() scanResult {
	var r scanResult
	for fn := range ssautil.AllFunctions(w.prog) {
		if fn.Pkg == nil || !strings.HasPrefix(fn.Pkg.Pkg.Path(), modulePath) || strings.Contains(fn.Pkg.Pkg.Path(), "/internal/zz") {
			continue
		}
		pos := w.prog.Fset.Position(fn.Pos())
		if strings.Contains(pos.Filename, "zz_verif_") || fn.Name() == "init" || strings.HasPrefix(fn.Name(), "init#") {
			continue
		}
		r.Functions++
		for _, b := range fn.Blocks {
			for _, ins := range b.Instrs {
				where := w.prog.Fset.Position(ins.Pos()).String()
				switch x := ins.(type) {
				case *ssa.Store:
					if g := rootGlobal(x.Addr); g != nil {
						r.GlobalWrites = append(r.GlobalWrites, fmt.Sprintf("%s: store to %s in %s", where, g.Name(), fn))
					}
				case *ssa.MapUpdate:
					if g := rootGlobal(x.Map); g != nil {
						r.GlobalWrites = append(r.GlobalWrites, fmt.Sprintf("%s: map update of %s in %s", where, g.Name(), fn))
					}
				case *ssa.Go:
					r.GoStmts = append(r.GoStmts, where)
				case *ssa.Call:
					if c := x.Common().StaticCallee(); c != nil && c.Pkg != nil {
						p := c.Pkg.Pkg.Path()
						if p == "sync" || p == "sync/atomic" {
							r.SyncUses = append(r.SyncUses, where+": "+c.String())
							switch c.String() {
							case "(*sync.Map).Load", "(*sync.Map).Store", "(*sync.Map).LoadOrStore", "(*sync.Map).Delete", "(*sync.Map).Range", "(*sync.Once).Do":
							default:
								r.SyncUnmodelled = append(r.SyncUnmodelled, where+": "+c.String())
							}
							if c.String() == "(*sync.Map).Store" || c.String() == "(*sync.Map).LoadOrStore" {
								if mi, ok := x.Common().Args[2].(*ssa.MakeInterface); ok && !scalarType(mi.X.Type()) {
									r.SyncUnmodelled = append(r.SyncUnmodelled, where+": sync.Map value of type "+mi.X.Type().String()+" (shared mutable payload)")
								}
							}
						}
					}
				}
			}
		}
	}
	w.scanOnce(&r)
	return r
}

func scalarType(t types.Type) bool {
	switch u := t.Underlying().(type) {
	case *types.Basic:
		return true
	case *types.Struct:
		for i := 0; i < u.NumFields(); i++ {
			if !scalarType(u.Field(i).Type()) {
				return false
			}
		}
		return true
	}
	return false
}

// scanOnce: for every sync.Once.Do(f) on a package-level Once, the package-level variables f stores to may
// only be accessed (outside f and the package initialisers) after a dominating Do of the same Once.
func (w *World) scanOnce(r *scanResult) {
	type onceInfo struct {
		fns  map[*ssa.Function]bool
		vars map[*ssa.Global]bool
	}
	onces := map[*ssa.Global]*onceInfo{}
	inModule := func(fn *ssa.Function) bool {
		if fn.Pkg == nil || !strings.HasPrefix(fn.Pkg.Pkg.Path(), modulePath) || strings.Contains(fn.Pkg.Pkg.Path(), "/internal/zz") {
			return false
		}
		return !strings.Contains(w.prog.Fset.Position(fn.Pos()).Filename, "zz_verif_")
	}
	onceCall := func(ins ssa.Instruction) (*ssa.Global, ssa.Value) {
		c, ok := ins.(*ssa.Call)
		if !ok {
			return nil, nil
		}
		if f := c.Common().StaticCallee(); f == nil || f.String() != "(*sync.Once).Do" {
			return nil, nil
		}
		return rootGlobal(c.Common().Args[0]), c.Common().Args[1]
	}
	all := ssautil.AllFunctions(w.prog)
	for fn := range all {
		if !inModule(fn) {
			continue
		}
		for _, b := range fn.Blocks {
			for _, ins := range b.Instrs {
				og, fv := onceCall(ins)
				if fv == nil {
					continue
				}
				where := w.prog.Fset.Position(ins.Pos()).String()
				if og == nil {
					r.SyncUnmodelled = append(r.SyncUnmodelled, where+": sync.Once that is not a package-level variable")
					continue
				}
				var body *ssa.Function
				switch f := fv.(type) {
				case *ssa.Function:
					body = f
				case *ssa.MakeClosure:
					body, _ = f.Fn.(*ssa.Function)
				}
				if body == nil {
					r.SyncUnmodelled = append(r.SyncUnmodelled, where+": sync.Once.Do with a dynamic function value")
					continue
				}
				oi := onces[og]
				if oi == nil {
					oi = &onceInfo{fns: map[*ssa.Function]bool{}, vars: map[*ssa.Global]bool{}}
					onces[og] = oi
				}
				// the body and the module functions it calls statically (one level)
				todo := []*ssa.Function{body}
				for _, bb := range body.Blocks {
					for _, bi := range bb.Instrs {
						if c, ok := bi.(*ssa.Call); ok {
							if f := c.Common().StaticCallee(); f != nil && inModule(f) {
								todo = append(todo, f)
							}
						}
					}
				}
				for _, f := range todo {
					oi.fns[f] = true
					for _, bb := range f.Blocks {
						for _, bi := range bb.Instrs {
							switch x := bi.(type) {
							case *ssa.Store:
								if g := rootGlobal(x.Addr); g != nil {
									oi.vars[g] = true
								}
							case *ssa.MapUpdate:
								if g := rootGlobal(x.Map); g != nil {
									oi.vars[g] = true
								}
							}
						}
					}
				}
			}
		}
	}
	for og, oi := range onces {
		for v := range oi.vars {
			r.OnceGuarded = append(r.OnceGuarded, v.Name()+" (under "+og.Name()+")")
		}
		for fn := range all {
			if !inModule(fn) || oi.fns[fn] || fn.Name() == "init" || strings.HasPrefix(fn.Name(), "init#") {
				continue
			}
			// positions of the Do calls of this Once in fn
			type pos struct {
				b *ssa.BasicBlock
				i int
			}
			var dos []pos
			for _, b := range fn.Blocks {
				for i, ins := range b.Instrs {
					if g, fv := onceCall(ins); fv != nil && g == og {
						dos = append(dos, pos{b, i})
					}
				}
			}
			for _, b := range fn.Blocks {
				for i, ins := range b.Instrs {
					var g *ssa.Global
					switch x := ins.(type) {
					case *ssa.UnOp:
						if x.Op == token.MUL {
							g = rootGlobal(x.X)
						}
					case *ssa.Store:
						g = rootGlobal(x.Addr)
					case *ssa.MapUpdate:
						g = rootGlobal(x.Map)
					case *ssa.Lookup:
						g = rootGlobal(x.X)
					}
					if g == nil || !oi.vars[g] {
						continue
					}
					ok := false
					for _, d := range dos {
						if (d.b == b && d.i < i) || (d.b != b && d.b.Dominates(b)) {
							ok = true
						}
					}
					if !ok {
						r.SyncUnmodelled = append(r.SyncUnmodelled, fmt.Sprintf("%s: %s is initialised under %s.Do but accessed here without a dominating Do", w.prog.Fset.Position(ins.Pos()), g.Name(), og.Name()))
					}
				}
			}
		}
	}
	sort.Strings(r.OnceGuarded)
	sort.Strings(r.SyncUnmodelled)
}
