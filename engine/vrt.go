package main

// Engine side of the harness runtime (package internal/zzvrt).

import (
	"go/types"
	"fmt"
	"sort"
	"math/big"

	"golang.org/x/tools/go/ssa"
)

func (ex *Exec) label(l *Term) string {
	if !isStrConst(l) {
		unsupported("nondet label must be a constant string")
	}
	n := ex.labelSeen[l.s]
	ex.labelSeen[l.s] = n + 1
	if n == 0 {
		return l.s
	}
	return fmt.Sprintf("%s#%d", l.s, n)
}

func (ex *Exec) enumVar(name string, lo, hi int64) (*Term, *Term) {
	v := NewVar(name, SBV)
	v.ranged, v.lo, v.hi = true, lo, hi
	var cs []Case
	var ds []*Term
	for k := lo; k <= hi; k++ {
		e := Eq(v, BV(k))
		cs = append(cs, Case{e, BV(k)})
		ds = append(ds, e)
	}
	ex.assumptions = append(ex.assumptions, Or(ds...))
	return v, mkCases(SBV, cs)
}

func constInt(v Value, what string) int64 {
	t, ok := v.(*Term)
	if !ok || t.op != OpConst {
		unsupported("%s must be a constant", what)
	}
	return t.i
}

func (ex *Exec) vrtCall(fn *ssa.Function, args []Value, g *Term, where string) Value {
	T := func(i int) *Term { return args[i].(*Term) }
	switch fn.Name() {
	case "Int":
		name := ex.label(T(0))
		v := NewVar(name, SBV)
		ex.nondets = append(ex.nondets, NondetRec{Label: name, Kind: "int", Var: v})
		return v
	case "Enum":
		name := ex.label(T(0))
		lo, hi := constInt(args[1], "Enum lo"), constInt(args[2], "Enum hi")
		if fv, ok := ex.fixed[name]; ok {
			if fv < lo || fv > hi {
				unsupported("cube value %d outside Enum range of %s", fv, name)
			}
			ex.nondets = append(ex.nondets, NondetRec{Label: name, Kind: "fixed", Fixed: fv})
			return BV(fv)
		}
		v, cs := ex.enumVar(name, lo, hi)
		ex.nondets = append(ex.nondets, NondetRec{Label: name, Kind: "enum", Var: v})
		return cs
	case "Bool":
		name := ex.label(T(0))
		v := NewVar(name, SBool)
		ex.nondets = append(ex.nondets, NondetRec{Label: name, Kind: "bool", Var: v})
		return v
	case "String", "StringNo":
		name := ex.label(T(0))
		if fs, ok := ex.fixedStr[name]; ok {
			ex.nondets = append(ex.nondets, NondetRec{Label: name, Kind: "fixed"})
			return Str(fs)
		}
		v := NewVar(name, SStr)
		if fn.Name() == "StringNo" {
			fb := T(1)
			if !isStrConst(fb) {
				unsupported("StringNo: forbidden set must be constant")
			}
			v.noBytes = fb.s
			for i := 0; i < len(fb.s); i++ {
				ex.assumptions = append(ex.assumptions, IntBin(OpIntLt, IndexOf(v, Str(fb.s[i:i+1]), IntC(0)), IntC(0)))
			}
		}
		// one SMT character per Go byte
		ex.assumptions = append(ex.assumptions, UF("bytesOnly", SBool, v))
		ex.nondets = append(ex.nondets, NondetRec{Label: name, Kind: "string", Var: v})
		return v
	case "Float":
		name := ex.label(T(0))
		v := NewVar(name, SFP)
		ex.nondets = append(ex.nondets, NondetRec{Label: name, Kind: "float", Var: v})
		return v
	case "Lang":
		name := ex.label(T(0))
		v := NewVar(name, SBV)
		ex.nondets = append(ex.nondets, NondetRec{Label: name, Kind: "lang", Var: v})
		return v
	case "Pick":
		name := ex.label(T(0))
		opts := args[1].(*SliceVal)
		n := constInt(opts.Len, "Pick option count")
		if fv, ok := ex.fixed[name]; ok {
			if fv < 0 || fv >= n {
				unsupported("cube value %d outside Pick range of %s", fv, name)
			}
			ex.nondets = append(ex.nondets, NondetRec{Label: name, Kind: "fixed", Fixed: fv})
			return opts.Elems[fv].(*Term)
		}
		v, _ := ex.enumVar(name, 0, n-1)
		var cs []Case
		var names []string
		for k := int64(0); k < n; k++ {
			o := opts.Elems[k].(*Term)
			if !isStrConst(o) {
				unsupported("Pick options must be constant strings")
			}
			names = append(names, o.s)
			cs = append(cs, Case{Eq(v, BV(k)), o})
		}
		ex.nondets = append(ex.nondets, NondetRec{Label: name, Kind: "pick", Var: v, Opts: names})
		return mkCases(SStr, cs)
	case "Assume":
		ex.assumptions = append(ex.assumptions, Implies(g, T(0)))
		return nil
	case "Assert":
		msg := "assert"
		if isStrConst(T(1)) {
			msg = T(1).s
		}
		ex.asserts = append(ex.asserts, AssertRec{G: g, Cond: T(0), Msg: msg, Kind: "assert"})
		return nil
	case "Reach":
		msg := "reach"
		if isStrConst(T(0)) {
			msg = T(0).s
		}
		ex.asserts = append(ex.asserts, AssertRec{G: g, Cond: True, Msg: msg, Kind: "reach"})
		return nil
	case "SymbolicMapOrder":
		ex.symbolicMapOrder = T(0).IsTrue()
		return nil
	case "FrameBegin":
		ex.frameBegin()
		return nil
	case "FrameUnchanged":
		msg := "frame"
		if isStrConst(T(0)) {
			msg = T(0).s
		}
		ex.frameUnchanged(g, msg)
		return nil
	case "HistoryStep":
		return Bool(ex.history)
	case "Observe":
		if !isStrConst(T(0)) {
			unsupported("Observe label must be constant")
		}
		v := args[1]
		if iv, ok := v.(*IfaceVal); ok {
			v = iv.V
		}
		ex.observes = append(ex.observes, observeRec{Label: T(0).s, G: g, V: v})
		return nil
	case "FrameExempt":
		if ex.frameExempt == nil {
			ex.frameExempt = map[*Object]bool{}
		}
		var mark func(v Value)
		mark = func(v Value) {
			switch x := v.(type) {
			case *IfaceVal:
				mark(x.V)
			case *PtrVal:
				for _, t := range x.T {
					if t.Obj != nil && !ex.frameExempt[t.Obj] && !t.Obj.global {
						ex.frameExempt[t.Obj] = true
						for _, c := range t.Obj.cells {
							mark(c)
						}
					}
				}
			}
		}
		mark(args[0])
		return nil
	case "SetFrameObserver", "Reset", "FrameWatch":
		return nil
	// text/template reference (the same uninterpreted functions the model of text/template uses)
	case "TmplParseFails":
		return UF("tmplParseFails", SBool, T(0))
	case "TmplExecFails":
		return UF("tmplExecFails", SBool, T(0), ex.dataIdentity(args[1], where))
	case "TmplExecOut":
		return UF("tmplExecOut", SStr, T(0), ex.dataIdentity(args[1], where))
	case "Reader":
		// abstract io.Reader: full content, whether reading fails, what was read before the failure
		return &IfaceVal{Nil: False, Typ: fn.Signature.Results().At(0).Type(), V: &OpaqueVal{Kind: "reader", Args: []Value{args[0], args[1], args[2]}}}
	case "ChunkReader":
		// stateful reader: yields c1, then c2 (together with io.EOF if eofWithData), then (0, io.EOF);
		// if fails: yields c1, then (0, error). Cells: c1, c2, eofWithData, fails, position.
		o := ex.heap.newObj(KStruct, nil, 5, "chunkreader")
		o.born = g
		o.cells[0], o.cells[1], o.cells[2], o.cells[3], o.cells[4] = args[0], args[1], args[2], args[3], BV(0)
		rt := ex.chunkReaderType(fn)
		return &IfaceVal{Nil: False, Typ: rt, V: ptrTo(o, -1)}
	case "Read":
		return ex.chunkRead(args, g, where)
	case "ReadAll":
		iv, ok := args[0].(*IfaceVal)
		if !ok {
			unsupported("ReadAll of %T", args[0])
		}
		ex.panicIf(And(g, iv.Nil), "ReadAll of a nil reader at "+where)
		if iv.Typ != nil && namedIs(iv.Typ, "bytes", "Buffer") {
			return inBuilderString(ex, nil, []Value{iv.V}, g, where)
		}
		if iv.Typ == nil {
			return Str("")
		}
		unsupported("ReadAll of %v", iv.Typ)
		return nil
	// rationals
	case "R":
		if !isStrConst(T(0)) {
			unsupported("R: literal must be constant")
		}
		return Rat(parseRat(T(0).s))
	case "RInt":
		return lift(SRat, func(cs []*Term) *Term { return Rat(big.NewRat(cs[0].i, 1)) }, ratArg(T(0)))
	case "RAdd":
		return lift(SRat, func(cs []*Term) *Term { return Rat(new(big.Rat).Add(cs[0].r, cs[1].r)) }, ratArg(T(0)), ratArg(T(1)))
	case "RSub":
		return lift(SRat, func(cs []*Term) *Term { return Rat(new(big.Rat).Sub(cs[0].r, cs[1].r)) }, ratArg(T(0)), ratArg(T(1)))
	case "RMul":
		return lift(SRat, func(cs []*Term) *Term { return Rat(new(big.Rat).Mul(cs[0].r, cs[1].r)) }, ratArg(T(0)), ratArg(T(1)))
	case "RDivInt":
		return lift(SRat, func(cs []*Term) *Term {
			if cs[1].i == 0 {
				return Rat(new(big.Rat))
			}
			return Rat(new(big.Rat).Quo(cs[0].r, big.NewRat(cs[1].i, 1)))
		}, ratArg(T(0)), ratArg(T(1)))
	case "RPow":
		return lift(SRat, func(cs []*Term) *Term { return Rat(ratPow(cs[0].r, cs[1].i)) }, ratArg(T(0)), ratArg(T(1)))
	case "RMin":
		return lift(SRat, func(cs []*Term) *Term {
			if cs[0].r.Cmp(cs[1].r) <= 0 {
				return cs[0]
			}
			return cs[1]
		}, ratArg(T(0)), ratArg(T(1)))
	case "RLe":
		return lift(SBool, func(cs []*Term) *Term { return Bool(cs[0].r.Cmp(cs[1].r) <= 0) }, ratArg(T(0)), ratArg(T(1)))
	case "RLt":
		return lift(SBool, func(cs []*Term) *Term { return Bool(cs[0].r.Cmp(cs[1].r) < 0) }, ratArg(T(0)), ratArg(T(1)))
	case "REq":
		return lift(SBool, func(cs []*Term) *Term { return Bool(cs[0].r.Cmp(cs[1].r) == 0) }, ratArg(T(0)), ratArg(T(1)))
	case "RFloor":
		return lift(SBV, func(cs []*Term) *Term { return BV(ratFloor(cs[0].r).Int64()) }, ratArg(T(0)))
	case "RCeil":
		return lift(SBV, func(cs []*Term) *Term { return BV(ratCeil(cs[0].r).Int64()) }, ratArg(T(0)))
	case "RRound":
		return lift(SBV, func(cs []*Term) *Term { return BV(ratRound(cs[0].r).Int64()) }, ratArg(T(0)))
	case "RIsHalf":
		return lift(SBool, func(cs []*Term) *Term {
			d := new(big.Rat).Mul(cs[0].r, big.NewRat(2, 1))
			return Bool(d.IsInt() && !cs[0].r.IsInt())
		}, ratArg(T(0)))
	case "RFromFloat":
		return lift(SRat, func(cs []*Term) *Term {
			r := new(big.Rat)
			if r.SetFloat64(cs[0].Float()) == nil {
				return Rat(new(big.Rat))
			}
			return Rat(r)
		}, ratArg(T(0)))
	}
	unsupported("vrt.%s is not modelled (at %s)", fn.Name(), where)
	return nil
}

func ratArg(t *Term) *Term {
	if !t.Liftable() {
		unsupported("exact-rational / lifted operation on a symbolic value %v", t)
	}
	return t
}

// ---------------------------------------------------------------------------
// frames: all heap cells that exist at FrameBegin must be unchanged at FrameUnchanged

func (ex *Exec) frameBegin() {
	ex.frameExempt = nil
	ex.frameSnap = map[*Object][]Value{}
	ex.frameEnts = map[*Object]int{}
	for _, o := range ex.heap.objs {
		c := make([]Value, len(o.cells))
		copy(c, o.cells)
		ex.frameSnap[o] = c
		ex.frameEnts[o] = len(o.entries)
	}
	ex.frameObjs = len(ex.heap.objs)
}

func (ex *Exec) frameUnchanged(g *Term, msg string) {
	if ex.frameSnap == nil {
		unsupported("FrameUnchanged without FrameBegin")
	}
	var diffs []*Term
	var what []string
	for _, o := range ex.heap.objs[:ex.frameObjs] {
		if ex.frameExempt[o] {
			continue
		}
		old := ex.frameSnap[o]
		for i := range o.cells {
			if o.cells[i] == old[i] {
				continue
			}
			d := valuesDiffer(o.cells[i], old[i])
			if !d.IsFalse() {
				diffs = append(diffs, d)
				what = append(what, fmt.Sprintf("%s[%d]", o, i))
			}
		}
		if n0 := ex.frameEnts[o]; len(o.entries) > n0 {
			// new guarded map updates: changed iff an update is enabled and differs from the old content
			oldObj := &Object{kind: KMap, entries: o.entries[:n0]}
			for _, e := range o.entries[n0:] {
				if e.G.IsFalse() {
					continue
				}
				var ov Value
				var ok *Term
				if o.typ == nil {
					ov, ok = syncMapLookup(ex, ptrTo(oldObj, -1), e.Key, True)
				} else {
					ov, ok = ex.mapLookup(ptrTo(oldObj, -1), e.Key, mapElemType(o), True)
				}
				d := And(e.G, Or(Not(ok), valuesDiffer(ov, e.Val)))
				if !d.IsFalse() {
					diffs = append(diffs, d)
					what = append(what, fmt.Sprintf("%s[%v]", o, e.Key))
				}
			}
		}
	}
	m := msg
	if len(what) > 0 {
		if len(what) > 6 {
			what = append(what[:6], "…")
		}
		m = fmt.Sprintf("%s (candidate writes: %v)", msg, what)
	}
	ex.asserts = append(ex.asserts, AssertRec{G: g, Cond: Not(Or(diffs...)), Msg: m, Kind: "assert"})
}

// chunkReaderType: the concrete (pointer) type natively returned by vrt.ChunkReader
func (ex *Exec) chunkReaderType(fn *ssa.Function) types.Type {
	obj := fn.Pkg.Pkg.Scope().Lookup("chunkReader")
	if obj == nil {
		unsupported("vrt.chunkReader type not found")
	}
	return types.NewPointer(obj.Type())
}

func isChunkReader(v Value) (*Object, bool) {
	iv, ok := v.(*IfaceVal)
	if ok {
		v = iv.V
	}
	p, ok := v.(*PtrVal)
	if !ok || len(p.T) != 1 || p.T[0].Obj == nil || p.T[0].Obj.name != "chunkreader" {
		return nil, false
	}
	return p.T[0].Obj, true
}

func (ex *Exec) eofErr() *ErrVal {
	idx := -1
	for i, n := range ex.errNames {
		if n == "io.EOF" {
			idx = i
		}
	}
	if idx < 0 {
		ex.errNames = append(ex.errNames, "io.EOF")
		idx = len(ex.errNames) - 1
	}
	e := &ErrVal{Nil: False, Bits: make([]*Term, len(ex.errNames))}
	for i := range e.Bits {
		e.Bits[i] = Bool(i == idx)
	}
	return e
}

// chunkRead: (*chunkReader).Read(p []byte) on the abstract reader; p must be a byte buffer view.
func (ex *Exec) chunkRead(args []Value, g *Term, where string) Value {
	o, ok := isChunkReader(args[0])
	if !ok {
		unsupported("Read on %T at %s", args[0], where)
	}
	buf, ok := args[1].(*BytesVal)
	if !ok {
		unsupported("Read into %T at %s", args[1], where)
	}
	c1, c2 := o.cells[0].(*Term), o.cells[1].(*Term)
	eofData, fails, pos := o.cells[2].(*Term), o.cells[3].(*Term), o.cells[4].(*Term)
	p0, p1 := Eq(pos, BV(0)), Eq(pos, BV(1))
	// data returned by this call
	data := Ite(p0, c1, Ite(And(p1, Not(fails)), c2, Str("")))
	eof := ex.eofErr()
	foreign := &ErrVal{Nil: False, Bits: make([]*Term, len(ex.errNames))}
	for i := range foreign.Bits {
		foreign.Bits[i] = Bool(i == 0)
	}
	nilErr := newErrNil(len(ex.errNames))
	// error returned by this call
	isEOF := Or(And(p1, Not(fails), eofData), And(Not(p0), Not(p1), True))
	isEOF = And(isEOF, Not(And(Not(p0), fails)))
	isFail := And(Not(p0), fails)
	var err Value = iteValue(isFail, foreign, iteValue(isEOF, eof, nilErr))
	// the buffer now holds the data
	gw := g
	if buf.Obj.born != nil && gw == buf.Obj.born {
		gw = True
	}
	buf.Obj.cells[0] = iteValue(gw, data, buf.Obj.cells[0])
	o.cells[4] = iteValue(g, BVBin(OpBVAdd, pos, BV(1)), pos)
	ex.panicIf(And(g, BVBin(OpBVSLt, BV(int64(buf.Cap)), StrLenBV(data))), "chunk larger than the read buffer (outside the reader model) at "+where)
	return TupleVal{StrLenBV(data), err}
}

// ---------------------------------------------------------------------------
// language.Tag.String()

var tagGlobalNames = map[string]string{
	"Afrikaans": "af", "Amharic": "am", "Arabic": "ar", "ModernStandardArabic": "ar-001", "Azerbaijani": "az", "Bulgarian": "bg",
	"Bengali": "bn", "Catalan": "ca", "Czech": "cs", "Danish": "da", "German": "de", "Greek": "el", "English": "en",
	"AmericanEnglish": "en-US", "BritishEnglish": "en-GB", "Spanish": "es", "EuropeanSpanish": "es-ES", "LatinAmericanSpanish": "es-419",
	"Estonian": "et", "Persian": "fa", "Finnish": "fi", "Filipino": "fil", "French": "fr", "CanadianFrench": "fr-CA", "Gujarati": "gu",
	"Hebrew": "he", "Hindi": "hi", "Croatian": "hr", "Hungarian": "hu", "Armenian": "hy", "Indonesian": "id", "Icelandic": "is",
	"Italian": "it", "Japanese": "ja", "Georgian": "ka", "Kazakh": "kk", "Khmer": "km", "Kannada": "kn", "Korean": "ko", "Kirghiz": "ky",
	"Lao": "lo", "Lithuanian": "lt", "Latvian": "lv", "Macedonian": "mk", "Malayalam": "ml", "Mongolian": "mn", "Marathi": "mr",
	"Malay": "ms", "Burmese": "my", "Nepali": "ne", "Dutch": "nl", "Norwegian": "no", "Punjabi": "pa", "Polish": "pl", "Portuguese": "pt",
	"BrazilianPortuguese": "pt-BR", "EuropeanPortuguese": "pt-PT", "Romanian": "ro", "Russian": "ru", "Sinhala": "si", "Slovak": "sk",
	"Slovenian": "sl", "Albanian": "sq", "Serbian": "sr", "SerbianLatin": "sr-Latn", "Swedish": "sv", "Swahili": "sw", "Tamil": "ta",
	"Telugu": "te", "Thai": "th", "Turkish": "tr", "Ukrainian": "uk", "Urdu": "ur", "Uzbek": "uz", "Vietnamese": "vi", "Chinese": "zh",
	"SimplifiedChinese": "zh-Hans", "TraditionalChinese": "zh-Hant", "Zulu": "zu", "Und": "und",
}

// the tags a language variable may stand for when the code looks at its string form (regional variants and
// look-alikes of the two supported languages, a few unrelated languages); all are valid BCP 47 tags
var tagOtherStrings = []string{"fr", "de", "zh", "ko", "es", "en-US", "en-GB", "en-AU", "enm", "en-Latn", "ja-JP", "ja-Latn", "jam", "jv",
	"und-JP", "und-US", "zh-Hans", "pt-BR", "ru", "ar", "it", "nl", "tlh"}

func (ex *Exec) tagString(t *Term) *Term {
	switch t.op {
	case OpConst:
		for name, id := range ex.tagIDs {
			if id == t.i {
				if s, ok := tagGlobalNames[name]; ok {
					return Str(s)
				}
			}
		}
		unsupported("String() of an unknown constant language tag")
	case OpIte:
		return Ite(t.args[0], ex.tagString(t.args[1]), ex.tagString(t.args[2]))
	case OpCases:
		var cs []Case
		for _, c := range t.cases {
			cs = append(cs, Case{c.G, ex.tagString(c.V)})
		}
		return mkCases(SStr, cs)
	case OpVar:
		if ex.tagAux == nil {
			ex.tagAux = map[*Term]*Term{}
		}
		aux, ok := ex.tagAux[t]
		if !ok {
			var k *Term
			k, aux = ex.enumVar(t.s+".str", 0, int64(len(tagOtherStrings)-1))
			ex.nondets = append(ex.nondets, NondetRec{Label: t.s + ".str", Kind: "langaux", Var: k})
			// equal tags print equally
			for ot, oa := range ex.tagAux {
				ex.assumptions = append(ex.assumptions, Implies(Eq(ot, t), Eq(oa, aux)))
			}
			ex.tagAux[t] = aux
		}
		other := lift(SStr, func(cs []*Term) *Term { return Str(tagOtherStrings[cs[0].i]) }, aux)
		// known tags first (deterministic order)
		var names []string
		for name := range ex.tagIDs {
			names = append(names, name)
		}
		sort.Strings(names)
		res := other
		var notKnown []*Term
		for _, name := range names {
			s, ok := tagGlobalNames[name]
			if !ok {
				continue
			}
			is := Eq(t, BV(ex.tagIDs[name]))
			res = Ite(is, Str(s), res)
			notKnown = append(notKnown, Implies(Not(is), Not(Eq(other, Str(s)))))
		}
		// a tag that is none of the referenced constants does not print like one of them
		ex.assumptions = append(ex.assumptions, notKnown...)
		return res
	}
	unsupported("String() of a language tag of shape %v", t.op)
	return nil
}
