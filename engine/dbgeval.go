package main

import (
	"fmt"
	"math/rand"
	"os"
)

// Debug aid: random-assignment evaluation of Bool/BV terms to cross-check simplifications.

var debugAnd = os.Getenv("SYMGO_DEBUG_AND") != ""

type assignment map[int]int64

func evalTerm(t *Term, as assignment, rng *rand.Rand, memo map[int]int64) (int64, bool) {
	if v, ok := memo[t.id]; ok {
		return v, true
	}
	var r int64
	ok := true
	switch t.op {
	case OpConst:
		switch t.sort {
		case SBool:
			if t.b {
				r = 1
			}
		case SBV:
			r = t.i
		default:
			return 0, false
		}
	case OpVar:
		v, have := as[t.id]
		if !have {
			switch {
			case t.sort == SBool:
				v = int64(rng.Intn(2))
			case t.sort == SBV && t.ranged:
				v = t.lo + int64(rng.Intn(int(t.hi-t.lo+1)))
			case t.sort == SBV:
				v = int64(rng.Intn(9)) - 1
			default:
				return 0, false
			}
			as[t.id] = v
		}
		r = v
	case OpAnd:
		r = 1
		for _, a := range t.args {
			v, k := evalTerm(a, as, rng, memo)
			if !k {
				return 0, false
			}
			if v == 0 {
				r = 0
			}
		}
	case OpOr:
		r = 0
		for _, a := range t.args {
			v, k := evalTerm(a, as, rng, memo)
			if !k {
				return 0, false
			}
			if v != 0 {
				r = 1
			}
		}
	case OpNot:
		v, k := evalTerm(t.args[0], as, rng, memo)
		if !k {
			return 0, false
		}
		r = 1 - v
	case OpEq:
		a, k1 := evalTerm(t.args[0], as, rng, memo)
		b, k2 := evalTerm(t.args[1], as, rng, memo)
		if !k1 || !k2 {
			return 0, false
		}
		if a == b {
			r = 1
		}
	case OpCases:
		if t.sort != SBV {
			return 0, false
		}
		found := false
		for _, c := range t.cases {
			g, k := evalTerm(c.G, as, rng, memo)
			if !k {
				return 0, false
			}
			if g != 0 {
				r = c.V.i
				found = true
				break
			}
		}
		if !found {
			return 0, false
		}
	default:
		return 0, false
	}
	memo[t.id] = r
	return r, ok
}

var dbgRng = rand.New(rand.NewSource(1))

func checkAnd(args []*Term, res *Term) {
	for trial := 0; trial < 40; trial++ {
		as := assignment{}
		memo := map[int]int64{}
		want := int64(1)
		for _, a := range args {
			v, ok := evalTerm(a, as, dbgRng, memo)
			if !ok {
				return
			}
			if v == 0 {
				want = 0
			}
		}
		got, ok := evalTerm(res, as, dbgRng, memo)
		if !ok {
			return
		}
		if got != want {
			fmt.Fprintf(os.Stderr, "AND-BUG: want %d got %d\n  res=%v\n", want, got, res)
			for _, a := range args {
				v, _ := evalTerm(a, as, dbgRng, memo)
				fmt.Fprintf(os.Stderr, "  arg(%d) ps=%v %v\n", v, a.ps, a)
			}
			panic("AND-BUG")
		}
	}
}

func checkExclusive(gl []*Term) {
	for trial := 0; trial < 60; trial++ {
		as := assignment{}
		memo := map[int]int64{}
		n := 0
		var which []*Term
		for _, g := range gl {
			v, ok := evalTerm(g, as, dbgRng, memo)
			if !ok {
				return
			}
			if v != 0 {
				n++
				which = append(which, g)
			}
		}
		if n > 1 {
			fmt.Fprintf(os.Stderr, "EXCL-BUG: %d guards true\n", n)
			for _, g := range which {
				fmt.Fprintf(os.Stderr, "   %v\n", g)
			}
			panic("EXCL-BUG")
		}
	}
}
