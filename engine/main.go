package main

import (
	"bytes"
	"go/ast"
	"go/parser"
	"go/token"
	"os/exec"
	"encoding/json"
	"flag"
	"fmt"
	"go/types"
	"os"
	"path/filepath"
	"regexp"
	"runtime"
	"sort"
	"strconv"
	"strings"
	"time"

	"golang.org/x/tools/go/packages"
	"golang.org/x/tools/go/ssa"
	"golang.org/x/tools/go/ssa/ssautil"
)

func mapElemType(o *Object) types.Type {
	return o.typ.Underlying().(*types.Map).Elem()
}

// overlay dir name -> repo-relative package dir
var harnessDirs = map[string]string{
	"vrt":       "internal/zzvrt",
	"v3metric":  "v3/metric",
	"v2metric":  "v2/metric",
	"v3report":  "v3/report",
	"v3names":   "v3/report/names",
	"v3version": "v3/version",
	"cvsserr":   "cvsserr",
	"xv":        "internal/zzxv", // cross-package harnesses (public API only)
}

var initOrder = []string{
	"cvsserr", "v2/metric", "v3/metric", "v3/version", "v3/report/names", "v3/report",
}

type World struct {
	repo    string
	hdir    string
	prog    *ssa.Program
	pkgs    map[string]*ssa.Package // by repo-relative dir
	overlay map[string]string       // virtual path -> real path
	dropped map[string]string       // "<pkgdir>:<function>" -> why the harness function could not be stated on this tree
	pruned  map[string][]byte       // virtual path -> harness file content with the dropped functions removed
}

func buildOverlay(repo, hdir string) (map[string][]byte, map[string]string) {
	ov := map[string][]byte{}
	real := map[string]string{}
	for d, rel := range harnessDirs {
		files, _ := filepath.Glob(filepath.Join(hdir, d, "*.go"))
		for _, f := range files {
			if strings.HasSuffix(f, "_test.go") {
				continue
			}
			b, err := os.ReadFile(f)
			if err != nil {
				fatal("read %s: %v", f, err)
			}
			name := filepath.Base(f)
			if d != "vrt" && d != "xv" {
				name = "zz_verif_" + name
			}
			vp := filepath.Join(repo, rel, name)
			ov[vp] = b
			real[vp] = f
		}
	}
	return ov, real
}

func loadWorld(repo, hdir string) *World {
	ov, real := buildOverlay(repo, hdir)
	dropped := map[string]string{} // pkgdir:function -> reason
	pruned := map[string][]byte{}
	var pkgs []*packages.Package
	for round := 0; ; round++ {
		cfg := &packages.Config{
			Mode:    packages.LoadAllSyntax,
			Dir:     repo,
			Overlay: ov,
			Env:     append(os.Environ(), "GOFLAGS=-mod=mod", "GOPROXY=off", "GOSUMDB=off", "GOTOOLCHAIN=local"),
		}
		pats := []string{"./cvsserr", "./v2/metric", "./v3/metric", "./v3/version", "./v3/report/names", "./v3/report", "./internal/zzvrt"}
		if fs, _ := filepath.Glob(filepath.Join(hdir, "xv", "*.go")); len(fs) > 0 {
			pats = append(pats, "./internal/zzxv")
		}
		var err error
		pkgs, err = packages.Load(cfg, pats...)
		if err != nil {
			fatal("packages.Load: %v", err)
		}
		bad := false
		// harness functions that do not type-check against this tree (they are stated over unexported
		// functions or fields that no longer exist in that form) are removed, function by function
		type hit struct {
			file string
			line int
			msg  string
		}
		var hits []hit
		packages.Visit(pkgs, nil, func(p *packages.Package) {
			for _, e := range p.Errors {
				if !strings.HasPrefix(p.PkgPath, modulePath) {
					continue
				}
				parts := strings.Split(e.Pos, ":")
				if len(parts) >= 2 && strings.Contains(filepath.Base(parts[0]), "zz_verif_") {
					if _, isOv := ov[parts[0]]; isOv {
						ln, _ := strconv.Atoi(parts[1])
						hits = append(hits, hit{parts[0], ln, e.Msg})
						continue
					}
				}
				fmt.Fprintf(os.Stderr, "load error: %s: %v\n", p.PkgPath, e)
				bad = true
			}
		})
		if bad {
			fatal("package load errors (the repository does not type-check)")
		}
		if len(hits) == 0 {
			break
		}
		if round > 12 {
			fatal("harness files do not type-check against this tree: %v", hits[0])
		}
		progress := false
		byFile := map[string][]hit{}
		for _, h := range hits {
			byFile[h.file] = append(byFile[h.file], h)
		}
		for file, hs := range byFile {
			src := ov[file]
			fset := token.NewFileSet()
			af, perr := parser.ParseFile(fset, file, src, parser.ParseComments)
			if perr != nil {
				fatal("harness file %s does not parse: %v", file, perr)
			}
			type span struct{ lo, hi int }
			var cuts []span
			seen := map[string]bool{}
			for _, h := range hs {
				for _, d := range af.Decls {
					fd, ok := d.(*ast.FuncDecl)
					if !ok {
						continue
					}
					lo, hi := fset.Position(fd.Pos()), fset.Position(fd.End())
					if h.line < lo.Line || h.line > hi.Line || seen[fd.Name.Name] {
						continue
					}
					seen[fd.Name.Name] = true
					start := lo.Offset
					if fd.Doc != nil {
						start = fset.Position(fd.Doc.Pos()).Offset
					}
					cuts = append(cuts, span{start, hi.Offset})
					key := filepath.Dir(strings.TrimPrefix(file, repo+"/")) + ":" + fd.Name.Name
					dropped[key] = fmt.Sprintf("%s (harness line %d)", h.msg, h.line)
					fmt.Fprintf(os.Stderr, "NOTE harness function %s does not type-check against this tree and is left out: %s\n", key, h.msg)
					progress = true
				}
			}
			sort.Slice(cuts, func(i, j int) bool { return cuts[i].lo > cuts[j].lo })
			out := append([]byte(nil), src...)
			for _, c := range cuts {
				out = append(out[:c.lo:c.lo], out[c.hi:]...)
			}
			// imports that are no longer used would be errors of their own: blank-use every import
			out = append(out, []byte(blankUses(af))...)
			ov[file] = out
			pruned[file] = out
		}
		if !progress {
			fatal("harness files do not type-check against this tree (error outside any function): %s: %s", hits[0].file, hits[0].msg)
		}
	}
	prog, spkgs := ssautil.AllPackages(pkgs, ssa.InstantiateGenerics)
	prog.Build()
	w := &World{repo: repo, hdir: hdir, prog: prog, pkgs: map[string]*ssa.Package{}, overlay: real, dropped: dropped, pruned: pruned}
	for i, p := range pkgs {
		rel := strings.TrimPrefix(strings.TrimPrefix(p.PkgPath, modulePath), "/")
		w.pkgs[rel] = spkgs[i]
	}
	return w
}

// blankUses keeps every import of a pruned harness file in use.
func blankUses(af *ast.File) string {
	var sb strings.Builder
	sb.WriteString("\n")
	for _, im := range af.Imports {
		path, _ := strconv.Unquote(im.Path.Value)
		name := filepath.Base(path)
		if im.Name != nil {
			name = im.Name.Name
		}
		if name == "_" || name == "." {
			continue
		}
		sym := map[string]string{"strconv": "Itoa", "strings": "Join", "math": "Abs", "fmt": "Sprint", "errors": "New", "zzvrt": "Assert", "vrt": "Assert", "io": "EOF", "bytes": "NewBuffer", "metric": "NewBase", "language": "Und", "names": "BaseMetrics", "cvsserr": "ErrNullPointer", "big": "NewRat", "report": "NewBase", "template": "New", "sort": "Strings"}[name]
		if sym == "" {
			continue
		}
		fmt.Fprintf(&sb, "var _ = %s.%s\n", name, sym)
	}
	return sb.String()
}

func fatal(f string, a ...interface{}) {
	fmt.Fprintf(os.Stderr, "symgo: "+f+"\n", a...)
	fmt.Printf("INCONCLUSIVE engine: "+f+"\n", a...)
	os.Exit(2)
}

// ---------------------------------------------------------------------------

type HarnessSpec struct {
	Name    string   `json:"name"`    // function name
	Pkg     string   `json:"pkg"`     // repo-relative package dir
	Prop    []string `json:"props"`   // properties served
	Tier    string   `json:"tier"`    // quick | thorough (thorough-only harnesses are skipped in quick)
	Solvers []string `json:"solvers"` // default: z3new,cvc5
	Cap     int      `json:"cap"`     // seconds per obligation
	Note    string   `json:"note"`
	Enumerate bool   `json:"enumerate"` // enumerate all models of known-finding obligations
	Split     map[string][2]int64 `json:"split,omitempty"` // labels enumerated concretely (cube splitting): label -> [lo,hi]
	Procs     int    `json:"procs,omitempty"` // worker processes for cubes
	PureFP    bool   `json:"purefp,omitempty"` // no lifting of floats: every float operation goes to the solver (FloatingPoint theory)
	Optional  bool   `json:"optional,omitempty"` // a lemma over unexported functions / fields: when it cannot be stated on the tree (it no longer type-checks) the property is decided by the remaining harnesses
	Lemma     bool   `json:"lemma,omitempty"`   // the assertions speak about unexported functions: a violated one is a property violation only if it is confirmed through the exported API
	Confirm   string `json:"confirm,omitempty"` // native-only harness (same input labels) that checks the lemma's counterexample through the exported API
	Histories bool   `json:"histories,omitempty"` // run twice (vrt.HistoryStep() false / true) and require equal vrt.Observe values
	index     int    // position in the registry (addresses the entry for cube workers)
	// known-finding handling: assertions whose message starts with "KF:" are expected-sat
}

type OblReport struct {
	Harness  string             `json:"harness"`
	Name     string             `json:"name"`
	Kind     string             `json:"kind"`
	Expect   string             `json:"expect"`
	Verdicts map[string]string  `json:"verdicts"`
	Secs     map[string]float64 `json:"secs,omitempty"`
	Trivial  bool               `json:"trivial,omitempty"`
	Status   string             `json:"status"` // discharged | violated | inconclusive | witness-ok | vacuous
	Model    map[string]interface{} `json:"model,omitempty"`
	AllModels []map[string]interface{} `json:"all_models,omitempty"`
	AllComplete bool `json:"all_models_complete,omitempty"`
}

type HarnessReport struct {
	Spec        HarnessSpec `json:"spec"`
	Funcs       []string    `json:"functions_encoded"`
	Instrs      int64       `json:"ssa_instructions_executed"`
	Terms       int         `json:"terms"`
	LiftOps     int64       `json:"native_folds"`
	Assumptions int         `json:"assumptions"`
	Nondets     []string    `json:"nondet_inputs"`
	Obls        []OblReport `json:"obligations"`
	ExecSecs    float64     `json:"exec_s"`
	SolveSecs   float64     `json:"solve_s"`
	Error       string      `json:"error,omitempty"`
}

func (w *World) findFunc(pkgRel, name string) *ssa.Function {
	p := w.pkgs[pkgRel]
	if p == nil {
		return nil
	}
	return p.Func(name)
}

func (w *World) newExecWithInit() *Exec {
	ex := newExec(w.prog)
	// every package-level variable exists from the start (so that frames see writes to variables
	// that no initialiser touches)
	for _, rel := range initOrder {
		if p := w.pkgs[rel]; p != nil {
			var names []string
			for n, m := range p.Members {
				if _, ok := m.(*ssa.Global); ok {
					names = append(names, n)
				}
			}
			sort.Strings(names)
			for _, n := range names {
				func() {
					defer func() { recover() }() // variables of unmodelled types are created on first use
					ex.globalObj(p.Members[n].(*ssa.Global))
				}()
			}
		}
	}
	for _, rel := range initOrder {
		p := w.pkgs[rel]
		if p == nil {
			continue
		}
		initFn := p.Func("init")
		if initFn != nil && initFn.Blocks != nil {
			ex.callFunction(initFn, nil, nil, True)
		}
	}
	ex.initDone = true
	ex.initObjects = len(ex.heap.objs)
	if len(ex.panics) > 0 || len(ex.unwinds) > 0 {
		unsupported("package initialisation may panic or is not fully modelled: %v %v", ex.panics, ex.unwinds)
	}
	ex.funcsSeen = map[string]bool{}
	ex.instrCount = 0
	return ex
}

type runOpts struct {
	solvers []string
	cap     int
	workers int
	noSolve bool
	cubeMod int // child mode: handle cubes with index % cubeMod == cubeRem
	cubeRem int
	self    []string // command line to re-invoke for cube workers
	parallelEntries bool // run every registry entry in worker processes (entries concurrently)
}

func (w *World) runHarnessOnce(spec HarnessSpec, ro runOpts, fixed map[string]int64, cubeName string) (rep HarnessReport, exOut *Exec) {
	rep.Spec = spec
	t0 := time.Now()
	defer func() {
		if r := recover(); r != nil {
			if e, ok := r.(ErrUnsupported); ok {
				rep.Error = e.Error()
				return
			}
			panic(r)
		}
	}()
	fn := w.findFunc(spec.Pkg, spec.Name)
	if fn == nil {
		if why, ok := w.dropped[spec.Pkg+":"+spec.Name]; ok {
			rep.Error = "not statable on this tree: " + why
			return
		}
		rep.Error = "harness function not found: " + spec.Pkg + "." + spec.Name
		return
	}
	ex := w.newExecWithInit()
	ex.fixed = fixed
	exOut = ex
	pureFP = spec.PureFP
	defer func() { pureFP = false }()
	terms0 := TS.nextID
	lift0 := TS.liftOps
	ex.callFunction(fn, nil, nil, True)
	var ex2 *Exec
	if spec.Histories {
		// the same harness again with a preceding history; inputs are the same solver variables (same labels)
		ex2 = w.newExecWithInit()
		ex2.fixed = fixed
		ex2.history = true
		ex2.callFunction(fn, nil, nil, True)
		ex.assumptions = append(ex.assumptions, ex2.assumptions...)
		ex.panics = append(ex.panics, ex2.panics...)
		ex.unwinds = append(ex.unwinds, ex2.unwinds...)
		for _, a := range ex2.asserts {
			a.Msg = a.Msg + " [with history]"
			ex.asserts = append(ex.asserts, a)
		}
		known := map[string]bool{}
		for _, n := range ex.nondets {
			known[n.Label] = true
		}
		for _, n := range ex2.nondets {
			if !known[n.Label] {
				ex.nondets = append(ex.nondets, n)
			}
		}
		for f := range ex2.funcsSeen {
			ex.funcsSeen[f] = true
		}
		ex.instrCount += ex2.instrCount
	}
	rep.ExecSecs = time.Since(t0).Seconds()
	rep.Instrs = ex.instrCount
	rep.Terms = TS.nextID - terms0
	rep.LiftOps = TS.liftOps - lift0
	rep.Assumptions = len(ex.assumptions)
	for f := range ex.funcsSeen {
		if !strings.Contains(f, "zzvrt") && !strings.Contains(f, ".VH_") {
			rep.Funcs = append(rep.Funcs, f)
		}
	}
	sort.Strings(rep.Funcs)
	for _, n := range ex.nondets {
		rep.Nondets = append(rep.Nondets, n.Label+":"+n.Kind)
	}

	// obligations
	b := &Batch{Name: spec.Name, Assumptions: ex.assumptions}
	for _, n := range ex.nondets {
		if n.Var != nil {
			b.ModelVars = append(b.ModelVars, n.Var)
		}
	}
	for i, a := range ex.asserts {
		switch a.Kind {
		case "assert":
			o := &Obligation{Name: fmt.Sprintf("%s#%d", a.Msg, i), Kind: "assert", Formula: And(a.G, Not(a.Cond)), Expect: VUnsat}
			if strings.HasPrefix(a.Msg, "KF:") {
				o.Kind = "known-finding"
			}
			b.Obls = append(b.Obls, o)
			// vacuity twin: the assertion must be reachable (conditional assertions "IF: ..." speak about
			// behaviour the tree may not have at all, e.g. a decoder that accepts a second vector)
			if strings.HasPrefix(a.Msg, "IF:") {
				continue
			}
			b.Obls = append(b.Obls, &Obligation{Name: fmt.Sprintf("reach(%s)#%d", a.Msg, i), Kind: "reach", Formula: a.G, Expect: VSat})
		case "reach":
			b.Obls = append(b.Obls, &Obligation{Name: fmt.Sprintf("%s#%d", a.Msg, i), Kind: "reach", Formula: a.G, Expect: VSat})
		}
	}
	if ex2 != nil {
		byLabel := map[string]observeRec{}
		for _, o := range ex2.observes {
			byLabel[o.Label] = o
		}
		for _, o := range ex.observes {
			o2, ok := byLabel[o.Label]
			if !ok {
				continue
			}
			if os.Getenv("SYMGO_DEBUG_HIST") != "" {
				if ta, ok := o.V.(*Term); ok {
					if tb, ok := o2.V.(*Term); ok && ta != tb {
						fmt.Fprintf(os.Stderr, "HIST-DIFF %s:\n", o.Label)
						diffTerms(ta, tb, 0, map[[2]int]bool{})
					}
				}
			}
			b.Obls = append(b.Obls, &Obligation{Name: "history-free: " + o.Label, Kind: "history", Formula: And(o.G, o2.G, valuesDiffer(o.V, o2.V)), Expect: VUnsat})
		}
	}
	if len(ex.panics) > 0 {
		var gs []*Term
		for _, p := range ex.panics {
			gs = append(gs, p.G)
		}
		all := Or(gs...)
		b.Obls = append(b.Obls, &Obligation{Name: fmt.Sprintf("no panic (%d sites)", len(ex.panics)), Kind: "panic", Formula: all, Expect: VUnsat})
	} else {
		b.Obls = append(b.Obls, &Obligation{Name: "no panic (0 sites)", Kind: "panic", Formula: False, Expect: VUnsat})
	}
	if len(ex.unwinds) > 0 {
		var gs []*Term
		for _, p := range ex.unwinds {
			gs = append(gs, p.G)
		}
		b.Obls = append(b.Obls, &Obligation{Name: fmt.Sprintf("bounds suffice (%d sites)", len(ex.unwinds)), Kind: "unwind", Formula: Or(gs...), Expect: VUnsat})
	}
	// assumptions jointly satisfiable
	b.Obls = append(b.Obls, &Obligation{Name: "assumptions satisfiable", Kind: "reach", Formula: True, Expect: VSat})
	// "True" is constant: make it a real query by using a fresh tautology over assumptions
	b.Obls[len(b.Obls)-1].Formula = assumptionProbe()

	if ro.noSolve {
		return
	}
	solvers := ro.solvers
	if len(spec.Solvers) > 0 {
		solvers = spec.Solvers
	}
	capS := ro.cap
	if spec.Cap > 0 {
		capS = spec.Cap
	}
	t1 := time.Now()
	runBatch(b, solvers, capS, ro.workers)
	rep.SolveSecs = time.Since(t1).Seconds()

	for _, o := range b.Obls {
		if cubeName != "" {
			o.Name = o.Name + " @" + cubeName
		}
		or := OblReport{Harness: spec.Name, Name: o.Name, Kind: o.Kind, Expect: o.Expect.String(), Verdicts: map[string]string{}, Secs: map[string]float64{}, Trivial: o.Trivial}
		var sat, unsat, other int
		var model map[string]string
		for _, k := range sortedKeys(o.Results) {
			r := o.Results[k]
			or.Verdicts[k] = r.Verdict.String()
			if r.Raw != "" && r.Verdict == VError {
				or.Verdicts[k] = "error: " + r.Raw
			}
			or.Secs[k] = r.Secs
			switch r.Verdict {
			case VSat:
				sat++
				if model == nil || k == "z3new" {
					if r.Model != nil {
						model = r.Model
					}
				}
			case VUnsat:
				unsat++
			default:
				other++
			}
		}
		switch {
		case sat > 0 && unsat > 0:
			or.Status = "solver-disagreement"
		case o.Expect == VUnsat && unsat > 0:
			or.Status = "discharged"
		case o.Expect == VUnsat && sat > 0:
			or.Status = "violated"
		case o.Expect == VSat && sat > 0:
			or.Status = "witness-ok"
		case o.Expect == VSat && unsat > 0:
			or.Status = "vacuous"
		default:
			or.Status = "inconclusive"
		}
		if model != nil && (or.Status == "violated" || o.Kind == "reach") {
			or.Model = decodeModel(ex, model)
		}
		if spec.Enumerate && o.Kind == "known-finding" && or.Status == "violated" {
			var vars []*Term
			for _, n := range ex.nondets {
				if n.Var != nil && (n.Var.sort == SBV || n.Var.sort == SBool) {
					vars = append(vars, n.Var)
				}
			}
			ms, complete := enumerateModels(b, o.Formula, vars, "z3new", capS, 500)
			for _, m := range ms {
				or.AllModels = append(or.AllModels, decodeModel(ex, m))
			}
			or.AllComplete = complete
		}
		rep.Obls = append(rep.Obls, or)
	}
	return
}

// runHarness runs a harness, possibly split into cubes over some of its
// finite-domain inputs (each cube is a separate symbolic execution and a
// separate set of solver queries; together the cubes cover the whole domain).
var procSlots = make(chan struct{}, 16)

func (w *World) runHarness(spec HarnessSpec, ro runOpts) (HarnessReport, *Exec) {
	if len(spec.Split) == 0 {
		if ro.cubeMod == 0 && len(ro.self) > 0 && ro.parallelEntries {
			return w.runCubesParallel(spec, ro, 1, 1)
		}
		return w.runHarnessOnce(spec, ro, nil, "")
	}
	var labels []string
	for l := range spec.Split {
		labels = append(labels, l)
	}
	sort.Strings(labels)
	type cube struct {
		fixed map[string]int64
		name  string
	}
	var cubes []cube
	var rec func(i int, cur map[string]int64, name string)
	rec = func(i int, cur map[string]int64, name string) {
		if i == len(labels) {
			m := map[string]int64{}
			for k, v := range cur {
				m[k] = v
			}
			cubes = append(cubes, cube{m, strings.TrimPrefix(name, ",")})
			return
		}
		r := spec.Split[labels[i]]
		for v := r[0]; v <= r[1]; v++ {
			cur[labels[i]] = v
			rec(i+1, cur, fmt.Sprintf("%s,%s=%d", name, labels[i], v))
		}
	}
	rec(0, map[string]int64{}, "")
	procs := spec.Procs
	if procs <= 0 {
		procs = 1
	}
	if ro.cubeMod == 0 && (procs > 1 || ro.parallelEntries) && len(ro.self) > 0 {
		return w.runCubesParallel(spec, ro, procs, len(cubes))
	}
	var total HarnessReport
	total.Spec = spec
	funcs := map[string]bool{}
	for i, c := range cubes {
		if ro.cubeMod > 0 && i%ro.cubeMod != ro.cubeRem {
			continue
		}
		rep, _ := w.runHarnessOnce(spec, ro, c.fixed, c.name)
		total.ExecSecs += rep.ExecSecs
		total.SolveSecs += rep.SolveSecs
		total.Instrs += rep.Instrs
		total.Terms += rep.Terms
		total.LiftOps += rep.LiftOps
		total.Assumptions += rep.Assumptions
		total.Nondets = rep.Nondets
		for _, f := range rep.Funcs {
			funcs[f] = true
		}
		total.Obls = append(total.Obls, rep.Obls...)
		if rep.Error != "" {
			total.Error = rep.Error + " @" + c.name
		}
	}
	for f := range funcs {
		total.Funcs = append(total.Funcs, f)
	}
	sort.Strings(total.Funcs)
	return total, nil
}

func (w *World) runCubesParallel(spec HarnessSpec, ro runOpts, procs, ncubes int) (HarnessReport, *Exec) {
	if procs > ncubes {
		procs = ncubes
	}
	type res struct {
		rep HarnessReport
		err error
	}
	ch := make(chan res, procs)
	tmpdir, _ := os.MkdirTemp("", "symgo-cubes")
	defer os.RemoveAll(tmpdir)
	for r := 0; r < procs; r++ {
		go func(r int) {
			procSlots <- struct{}{}
			defer func() { <-procSlots }()
			out := filepath.Join(tmpdir, fmt.Sprintf("cube-%d.json", r))
			args := append([]string{}, ro.self[1:]...)
			args = append(args, "-specindex", fmt.Sprint(spec.index), "-cubemod", fmt.Sprint(procs), "-cuberem", fmt.Sprint(r), "-out", out, "-quiet")
			cmd := exec.Command(ro.self[0], args...)
			cmd.Stderr = os.Stderr
			var wout bytes.Buffer
			cmd.Stdout = &wout
			err := cmd.Run()
			var doc struct {
				Harnesses []HarnessReport `json:"harnesses"`
			}
			b, rerr := os.ReadFile(out)
			if rerr != nil {
				why := strings.TrimSpace(wout.String())
				if i := strings.LastIndex(why, "\n"); i >= 0 {
					why = why[i+1:]
				}
				if why == "" {
					why = fmt.Sprint(rerr)
				}
				ch <- res{err: fmt.Errorf("cube worker %d: %v: %s", r, err, why)}
				return
			}
			if jerr := json.Unmarshal(b, &doc); jerr != nil || len(doc.Harnesses) != 1 {
				ch <- res{err: fmt.Errorf("cube worker %d: bad output", r)}
				return
			}
			ch <- res{rep: doc.Harnesses[0]}
		}(r)
	}
	var total HarnessReport
	total.Spec = spec
	funcs := map[string]bool{}
	for i := 0; i < procs; i++ {
		r := <-ch
		if r.err != nil {
			total.Error = r.err.Error()
			continue
		}
		rep := r.rep
		if rep.ExecSecs > total.ExecSecs {
			total.ExecSecs = rep.ExecSecs
		}
		if rep.SolveSecs > total.SolveSecs {
			total.SolveSecs = rep.SolveSecs
		}
		total.Instrs += rep.Instrs
		total.Terms += rep.Terms
		total.LiftOps += rep.LiftOps
		total.Assumptions += rep.Assumptions
		total.Nondets = rep.Nondets
		for _, f := range rep.Funcs {
			funcs[f] = true
		}
		total.Obls = append(total.Obls, rep.Obls...)
		if rep.Error != "" {
			total.Error = rep.Error
		}
	}
	for f := range funcs {
		total.Funcs = append(total.Funcs, f)
	}
	sort.Strings(total.Funcs)
	return total, nil
}

var probeVar *Term

func assumptionProbe() *Term {
	if probeVar == nil {
		probeVar = NewVar("assumptions_probe", SBool)
	}
	return probeVar
}

func decodeModel(ex *Exec, m map[string]string) map[string]interface{} {
	out := map[string]interface{}{}
	for _, n := range ex.nondets {
		if n.Kind == "fixed" {
			out[n.Label] = n.Fixed
			continue
		}
		raw, ok := m[n.Var.s]
		if !ok {
			continue
		}
		switch n.Kind {
		case "int", "enum", "pick":
			if v, ok := smtValBV(raw); ok {
				out[n.Label] = v
				if n.Kind == "pick" && v >= 0 && int(v) < len(n.Opts) {
					out[n.Label+"$text"] = n.Opts[v]
				}
			}
		case "lang":
			if v, ok := smtValBV(raw); ok {
				name := "Other"
				for k, id := range ex.tagIDs {
					if id == v {
						name = k
					}
				}
				if s, ok := tagGlobalNames[name]; ok && name != "English" && name != "Japanese" && name != "Und" {
					name = "tag:" + s
				}
				if name == "Other" {
					// some tag that is none of the constants the code mentions: different values replay as different tags
					// (overridden by the "<label>.str" entry when the code looked at the tag's string form)
					name = "tag:" + tagOtherStrings[int(uint64(v)%uint64(len(tagOtherStrings)))]
				}
				out[n.Label] = name
			}
		case "langaux":
			if v, ok := smtValBV(raw); ok && v >= 0 && int(v) < len(tagOtherStrings) {
				out[n.Label] = "tag:" + tagOtherStrings[v]
			}
		case "bool":
			out[n.Label] = strings.TrimSpace(raw) == "true"
		case "string":
			if s, ok := smtValStr(raw); ok {
				bs := make([]int, len(s))
				for i := 0; i < len(s); i++ {
					bs[i] = int(s[i])
				}
				out[n.Label] = bs
				out[n.Label+"$text"] = fmt.Sprintf("%q", s)
			}
		case "float":
			if b, ok := smtValFP(raw); ok {
				out[n.Label] = fmt.Sprintf("%x", b)
				out[n.Label+"$text"] = fmt.Sprintf("%v", FPBits(b).Float())
			}
		}
	}
	return out
}

// ---------------------------------------------------------------------------

func main() {
	if len(os.Args) < 2 {
		fmt.Println("usage: symgo run|list ...")
		os.Exit(2)
	}
	go resourceGuard(os.Args[1])
	switch os.Args[1] {
	case "run":
		cmdRun(os.Args[2:])
	case "check":
		cmdCheck(os.Args[2:])
	case "selftest":
		cmdSelftest()
		if len(os.Args) > 2 && os.Args[2] == "-solvers-only" {
			return
		}
		if !cmdSelftestTranslator("/repo", "/verif", 1) {
			fmt.Println("selftest FAILED (translator validation)")
			os.Exit(2)
		}
	default:
		fmt.Println("unknown command")
		os.Exit(2)
	}
}

// resourceGuard: a harness whose symbolic execution outgrows memory (or, for a worker process, runs for more
// than 45 minutes) is abandoned with an inconclusive answer instead of being killed by the system.
func resourceGuard(cmd string) {
	memGB := 8.0
	if v, err := strconv.ParseFloat(os.Getenv("SYMGO_MEM_GB"), 64); err == nil && v > 0 {
		memGB = v
	}
	maxSecs := 2700.0
	if v, err := strconv.ParseFloat(os.Getenv("SYMGO_WORKER_SECONDS"), 64); err == nil && v > 0 {
		maxSecs = v
	}
	start := time.Now()
	for {
		time.Sleep(2 * time.Second)
		var ms runtime.MemStats
		runtime.ReadMemStats(&ms)
		if float64(ms.HeapAlloc) > memGB*1e9 {
			fatal("resource bound exceeded: the symbolic state of this harness needs more than %.0f GB (SYMGO_MEM_GB); the tree is not decided", memGB)
		}
		// the machine is about to run out of memory and this process is one of the big ones: give up before the
		// kernel picks a victim
		if float64(ms.HeapAlloc) > 2e9 {
			if b, err := os.ReadFile("/proc/meminfo"); err == nil {
				for _, ln := range strings.Split(string(b), "\n") {
					if strings.HasPrefix(ln, "MemAvailable:") {
						f := strings.Fields(ln)
						if len(f) >= 2 {
							if kb, err := strconv.ParseFloat(f[1], 64); err == nil && kb < 3e6 {
								fatal("resource bound exceeded: the machine has less than 3 GB of memory left and this harness already holds %.1f GB; the tree is not decided", float64(ms.HeapAlloc)/1e9)
							}
						}
					}
				}
			}
		}
		if cmd == "run" && time.Since(start).Seconds() > maxSecs {
			fatal("resource bound exceeded: a harness worker ran for more than %.0f s (SYMGO_WORKER_SECONDS); the tree is not decided", maxSecs)
		}
	}
}

func loadSpecs(path string) []HarnessSpec {
	b, err := os.ReadFile(path)
	if err != nil {
		fatal("read %s: %v", path, err)
	}
	var specs []HarnessSpec
	if err := json.Unmarshal(b, &specs); err != nil {
		fatal("parse %s: %v", path, err)
	}
	// generated registry next to it
	if filepath.Base(path) == "harnesses.json" {
		if gb, err := os.ReadFile(filepath.Join(filepath.Dir(path), "gen_specs.json")); err == nil {
			var gs []HarnessSpec
			if err := json.Unmarshal(gb, &gs); err != nil {
				fatal("parse gen_specs.json: %v", err)
			}
			specs = append(specs, gs...)
		}
	}
	for i := range specs {
		specs[i].index = i
	}
	return specs
}

func cmdRun(args []string) {
	fs := flag.NewFlagSet("run", flag.ExitOnError)
	repo := fs.String("repo", "/repo", "repository")
	hdir := fs.String("harness", "/verif/harness", "harness directory")
	specPath := fs.String("specs", "/verif/harness/harnesses.json", "harness registry")
	prop := fs.String("prop", "", "property id")
	only := fs.String("only", "", "regexp on harness names")
	tier := fs.String("tier", "quick", "quick|thorough")
	out := fs.String("out", "", "write harness reports (JSON) to this file")
	capS := fs.Int("cap", 0, "solver cap per obligation (s)")
	workers := fs.Int("workers", 8, "parallel solver chunks")
	solvers := fs.String("solvers", "z3new,cvc5", "solvers")
	noSolve := fs.Bool("nosolve", false, "execute only")
	verbose := fs.Bool("v", false, "verbose")
	cubeMod := fs.Int("cubemod", 0, "(internal) cube worker modulus")
	cubeRem := fs.Int("cuberem", 0, "(internal) cube worker remainder")
	quiet := fs.Bool("quiet", false, "no summary output")
	specIndex := fs.Int("specindex", -1, "(internal) run only the registry entry with this index")
	fs.Parse(args)

	t0 := time.Now()
	w := loadWorld(*repo, *hdir)
	loadSecs := time.Since(t0).Seconds()
	specs := loadSpecs(*specPath)
	var re *regexp.Regexp
	if *only != "" {
		re = regexp.MustCompile(*only)
	}
	ro := runOpts{solvers: strings.Split(*solvers, ","), cap: *capS, workers: *workers, noSolve: *noSolve, cubeMod: *cubeMod, cubeRem: *cubeRem}
	if *cubeMod == 0 {
		exe, _ := os.Executable()
		ro.self = []string{exe, "run", "-repo", *repo, "-harness", *hdir, "-specs", *specPath, "-tier", *tier, "-cap", fmt.Sprint(*capS), "-workers", "2", "-solvers", *solvers}
		if *noSolve {
			ro.self = append(ro.self, "-nosolve")
		}
	}
	if ro.cap == 0 {
		ro.cap = 120
		if *tier == "thorough" {
			ro.cap = 900
		}
	}
	var reports []HarnessReport
	for _, s := range specs {
		if *specIndex >= 0 {
			if s.index != *specIndex {
				continue
			}
			rep, _ := w.runHarness(s, ro)
			reports = append(reports, rep)
			continue
		}
		if *prop != "" {
			found := false
			for _, p := range s.Prop {
				if p == *prop {
					found = true
				}
			}
			if !found {
				continue
			}
		}
		if re != nil && !re.MatchString(s.Name) {
			continue
		}
		if s.Tier == "thorough" && *tier != "thorough" {
			continue
		}
		if s.Tier == "quick-only" && *tier == "thorough" {
			continue
		}
		rep, _ := w.runHarness(s, ro)
		reports = append(reports, rep)
		if !*quiet {
			summarize(rep)
		}
		_ = verbose
	}
	res := map[string]interface{}{
		"load_s":       loadSecs,
		"wall_s":       time.Since(t0).Seconds(),
		"harnesses":    reports,
		"solver_time":  Pool.timeSec,
		"solver_calls": Pool.queries,
		"tier":         *tier,
	}
	if *out != "" {
		b, _ := json.MarshalIndent(res, "", " ")
		if err := os.WriteFile(*out, b, 0o644); err != nil {
			fatal("write %s: %v", *out, err)
		}
	}
}

func summarize(rep HarnessReport) {
	counts := map[string]int{}
	for _, o := range rep.Obls {
		counts[o.Status]++
	}
	fmt.Printf("HARNESS %s exec=%.2fs solve=%.2fs instrs=%d terms=%d folds=%d obligations=%d %v", rep.Spec.Name, rep.ExecSecs, rep.SolveSecs, rep.Instrs, rep.Terms, rep.LiftOps, len(rep.Obls), counts)
	if rep.Error != "" {
		fmt.Printf(" ERROR: %s", rep.Error)
	}
	fmt.Println()
	for _, o := range rep.Obls {
		if o.Status != "discharged" && o.Status != "witness-ok" {
			fmt.Printf("   %-14s %s [%s] %v\n", o.Status, o.Name, o.Kind, o.Verdicts)
			if o.Model != nil {
				b, _ := json.Marshal(o.Model)
				fmt.Printf("      model: %s\n", b)
			}
		}
	}
}

func diffTerms(a, b *Term, depth int, seen map[[2]int]bool) bool {
	if a == b || depth > 40 {
		return false
	}
	k := [2]int{a.id, b.id}
	if seen[k] {
		return false
	}
	seen[k] = true
	if a.op != b.op || len(a.args) != len(b.args) || len(a.cases) != len(b.cases) {
		fmt.Fprintf(os.Stderr, "  depth %d: differ structurally:\n    A=%v\n    B=%v\n", depth, a.str(4), b.str(4))
		return true
	}
	for i := range a.args {
		if diffTerms(a.args[i], b.args[i], depth+1, seen) {
			return true
		}
	}
	for i := range a.cases {
		if a.cases[i].V != b.cases[i].V {
			fmt.Fprintf(os.Stderr, "  depth %d: case value differs %v / %v\n", depth, a.cases[i].V, b.cases[i].V)
			return true
		}
		if diffTerms(a.cases[i].G, b.cases[i].G, depth+1, seen) {
			return true
		}
	}
	fmt.Fprintf(os.Stderr, "  depth %d: leaf difference A=%v B=%v\n", depth, a.str(1), b.str(1))
	return true
}
