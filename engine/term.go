package main

// Term DAG with hash-consing, smart constructors, and "lifted" case lists
// (ITE-of-constants kept as a list of (guard, constant) and folded natively).

import (
	"os"
	"fmt"
	"math"
	"math/big"
	"sort"
	"strconv"
	"strings"
)

type Sort uint8

const (
	SBool Sort = iota
	SBV        // Go int / enum, 64-bit
	SInt       // mathematical int (string lengths/indices, internal)
	SStr
	SFP  // float64
	SRat // exact rational (never reaches a solver)
)

func (s Sort) String() string {
	return [...]string{"Bool", "BV", "Int", "Str", "FP", "Rat"}[s]
}

type Op uint8

const (
	OpConst Op = iota
	OpVar
	OpCases
	OpAnd
	OpOr
	OpNot
	OpIte
	OpEq
	// BV
	OpBVAdd
	OpBVSub
	OpBVMul
	OpBVSDiv
	OpBVSRem
	OpBVSLt
	OpBVSLe
	OpBVNeg
	OpBVAnd
	OpBVOr
	OpBVXor
	OpBVShl
	OpBVAshr
	OpBVLshr
	// Int (internal)
	OpIntAdd
	OpIntSub
	OpIntLt
	OpIntLe
	OpInt2BV
	// strings
	OpConcat
	OpSubstr  // (s, off Int, len Int)
	OpIndexOf // (s, t, from Int) -> Int
	OpStrLen  // s -> Int
	OpStrToInt // s -> Int (SMT-LIB str.to_int: -1 unless s is a non-empty digit string)
	OpSegStr  // args: n (BV), seg0.. ; payload s = separator
	// FP
	OpFPAdd
	OpFPSub
	OpFPMul
	OpFPDiv
	OpFPNeg
	OpFPLt
	OpFPLe
	OpFPEq // IEEE ==
	OpFPRound
	OpFPFloor
	OpFPMin
	OpFPToInt  // int(f) -> BV (RTZ)
	OpFPFromBV // float64(int)
	OpFPIsNaN
	// uninterpreted function application: payload s = name, sort = result
	OpUF
)

var opNames = map[Op]string{
	OpAnd: "and", OpOr: "or", OpNot: "not", OpIte: "ite", OpEq: "=",
	OpBVAdd: "bvadd", OpBVSub: "bvsub", OpBVMul: "bvmul", OpBVSDiv: "bvsdiv", OpBVSRem: "bvsrem",
	OpBVSLt: "bvslt", OpBVSLe: "bvsle", OpBVNeg: "bvneg",
	OpBVAnd: "bvand", OpBVOr: "bvor", OpBVXor: "bvxor", OpBVShl: "bvshl", OpBVAshr: "bvashr", OpBVLshr: "bvlshr",
	OpIntAdd: "+", OpIntSub: "-", OpIntLt: "<", OpIntLe: "<=",
	OpConcat: "str.++", OpSubstr: "str.substr", OpIndexOf: "str.indexof", OpStrLen: "str.len", OpStrToInt: "str.to_int",
}

type Case struct {
	G *Term
	V *Term // OpConst
}

type Term struct {
	id   int
	op   Op
	sort Sort
	args []*Term
	// payloads
	b     bool
	i     int64
	s     string // string const, var name, UF name, SegStr separator
	f     uint64 // float bits
	r     *big.Rat
	cases []Case
	ps      []pset // memberships in registered partitions of mutually exclusive guards
	// var attributes
	noBytes string // bytes known absent from this string var
	lo, hi  int64  // for enum vars (lo<=hi meaningful if ranged)
	ranged  bool
}

func (t *Term) ID() int       { return t.id }
func (t *Term) IsConst() bool { return t.op == OpConst }
func (t *Term) IsTrue() bool  { return t.op == OpConst && t.sort == SBool && t.b }
func (t *Term) IsFalse() bool { return t.op == OpConst && t.sort == SBool && !t.b }
func (t *Term) Liftable() bool {
	return t.op == OpConst || t.op == OpCases
}

// ---------------------------------------------------------------------------
// hash-consing

type TermStore struct {
	tab    map[string]*Term
	nextID int
	vars   []*Term
	ufs    map[string]ufSig
	// stats
	liftOps int64
}

type ufSig struct {
	args []Sort
	res  Sort
}

var TS = newStore()

func newStore() *TermStore {
	return &TermStore{tab: map[string]*Term{}, ufs: map[string]ufSig{}}
}

func (ts *TermStore) intern(key string, mk func() *Term) *Term {
	if t, ok := ts.tab[key]; ok {
		return t
	}
	t := mk()
	ts.nextID++
	t.id = ts.nextID
	ts.tab[key] = t
	return t
}

func keyOf(op Op, sort Sort, payload string, args []*Term) string {
	var sb strings.Builder
	sb.Grow(8 + len(payload) + 6*len(args))
	sb.WriteByte(byte(op) + 33)
	sb.WriteByte(byte(sort) + 48)
	sb.WriteString(payload)
	sb.WriteByte('|')
	for _, a := range args {
		sb.WriteString(strconv.Itoa(a.id))
		sb.WriteByte(',')
	}
	return sb.String()
}

func mkApp(op Op, sort Sort, payload string, args ...*Term) *Term {
	key := keyOf(op, sort, payload, args)
	return TS.intern(key, func() *Term {
		a := make([]*Term, len(args))
		copy(a, args)
		return &Term{op: op, sort: sort, args: a, s: payload}
	})
}

// ---------------------------------------------------------------------------
// constants

var (
	True  = mkBool(true)
	False = mkBool(false)
)

func mkBool(b bool) *Term {
	k := "cB0"
	if b {
		k = "cB1"
	}
	return TS.intern(k, func() *Term { return &Term{op: OpConst, sort: SBool, b: b} })
}
func Bool(b bool) *Term {
	if b {
		return True
	}
	return False
}
func BV(i int64) *Term {
	return TS.intern("cI"+strconv.FormatInt(i, 10), func() *Term { return &Term{op: OpConst, sort: SBV, i: i} })
}
func IntC(i int64) *Term {
	return TS.intern("cZ"+strconv.FormatInt(i, 10), func() *Term { return &Term{op: OpConst, sort: SInt, i: i} })
}
func Str(s string) *Term {
	return TS.intern("cS"+s, func() *Term { return &Term{op: OpConst, sort: SStr, s: s} })
}
func FPBits(b uint64) *Term {
	return TS.intern("cF"+strconv.FormatUint(b, 16), func() *Term { return &Term{op: OpConst, sort: SFP, f: b} })
}
func FP(f float64) *Term { return FPBits(math.Float64bits(f)) }
func Rat(r *big.Rat) *Term {
	return TS.intern("cR"+r.RatString(), func() *Term { return &Term{op: OpConst, sort: SRat, r: new(big.Rat).Set(r)} })
}
func (t *Term) Float() float64 { return math.Float64frombits(t.f) }

func NewVar(name string, sort Sort) *Term {
	key := "v" + sort.String() + ":" + name
	if t, ok := TS.tab[key]; ok {
		return t
	}
	t := TS.intern(key, func() *Term { return &Term{op: OpVar, sort: sort, s: name} })
	TS.vars = append(TS.vars, t)
	return t
}

func constKey(t *Term) string {
	switch t.sort {
	case SBool:
		if t.b {
			return "1"
		}
		return "0"
	case SBV, SInt:
		return strconv.FormatInt(t.i, 10)
	case SStr:
		return t.s
	case SFP:
		return strconv.FormatUint(t.f, 16)
	case SRat:
		return t.r.RatString()
	}
	panic("constKey")
}

// ---------------------------------------------------------------------------
// partitions of mutually exclusive guards
//
// The guards of one case list are mutually exclusive by construction. Guards
// that are unions of blocks of the same partition ("psets") are intersected
// exactly in And(), which removes the spurious (guard, value) pairs that arise
// when two operands derive from the same lifted value.

type pset struct {
	pid int
	idx []int32 // sorted block indices
}

var partitions [][]*Term // pid -> atoms

func registerPartition(guards []*Term) {
	pid := len(partitions)
	partitions = append(partitions, nil)
	for _, g := range guards {
		if g.op == OpConst {
			continue
		}
		g.ps = append(g.ps, pset{pid: pid, idx: []int32{int32(len(partitions[pid]))}})
		partitions[pid] = append(partitions[pid], g)
	}
}

func (t *Term) psFor(pid int) []int32 {
	for i := range t.ps {
		if t.ps[i].pid == pid {
			return t.ps[i].idx
		}
	}
	return nil
}

func unionIdx(a, b []int32) []int32 {
	out := make([]int32, 0, len(a)+len(b))
	i, j := 0, 0
	for i < len(a) && j < len(b) {
		switch {
		case a[i] < b[j]:
			out = append(out, a[i])
			i++
		case a[i] > b[j]:
			out = append(out, b[j])
			j++
		default:
			out = append(out, a[i])
			i++
			j++
		}
	}
	out = append(out, a[i:]...)
	out = append(out, b[j:]...)
	return out
}

func interIdx(a, b []int32) []int32 {
	var out []int32
	i, j := 0, 0
	for i < len(a) && j < len(b) {
		switch {
		case a[i] < b[j]:
			i++
		case a[i] > b[j]:
			j++
		default:
			out = append(out, a[i])
			i++
			j++
		}
	}
	return out
}

func diffIdx(a, b []int32) []int32 {
	var out []int32
	j := 0
	for _, x := range a {
		for j < len(b) && b[j] < x {
			j++
		}
		if j < len(b) && b[j] == x {
			continue
		}
		out = append(out, x)
	}
	return out
}

func psetTerm(pid int, idx []int32) *Term {
	if len(idx) == 0 {
		return False
	}
	ts := make([]*Term, len(idx))
	for i, k := range idx {
		ts[i] = partitions[pid][k]
	}
	return Or(ts...)
}

// ---------------------------------------------------------------------------
// boolean connectives

func Not(t *Term) *Term {
	if t.sort != SBool {
		panic("Not: non-bool " + t.String())
	}
	switch t.op {
	case OpConst:
		return Bool(!t.b)
	case OpNot:
		return t.args[0]
	}
	return mkApp(OpNot, SBool, "", t)
}

// eqAtom reports (varTerm, const) if t is (= x c) with c constant.
func eqAtom(t *Term) (*Term, *Term, bool) {
	if t.op == OpEq && t.args[1].op == OpConst && t.args[0].op != OpConst {
		return t.args[0], t.args[1], true
	}
	return nil, nil, false
}

const flattenMax = 12

// andMemo makes And() a function of its argument list: partition knowledge grows over time, so without
// the memo a recomputation of the same conjunction later in a run could simplify differently and
// relational harnesses (two histories, twin objects) would lose syntactic sharing.
var andMemo = map[string]*Term{}

func And(ts ...*Term) *Term {
	if len(ts) == 2 {
		a, b := ts[0], ts[1]
		if a.IsTrue() {
			return b
		}
		if b.IsTrue() {
			return a
		}
		if a.IsFalse() || b.IsFalse() {
			return False
		}
		if a == b {
			return a
		}
	}
	var key string
	if len(ts) <= 48 {
		var sb strings.Builder
		for _, t := range ts {
			sb.WriteString(strconv.Itoa(t.id))
			sb.WriteByte(',')
		}
		key = sb.String()
		if r, ok := andMemo[key]; ok {
			return r
		}
	}
	r := and0(ts...)
	if debugAnd {
		checkAnd(ts, r)
	}
	if key != "" {
		andMemo[key] = r
	}
	return r
}

func and0(ts ...*Term) *Term {
	out := make([]*Term, 0, len(ts))
	seen := map[int]bool{}
	var eqs map[int]*Term
	var flatPs []pset // memberships of flattened conjunctions that are registered atoms
	flatSeen := map[int]bool{} // ids of nested conjunctions that were flattened
	var add func(t *Term) bool
	add = func(t *Term) bool {
		if t.sort != SBool {
			panic("And: non-bool")
		}
		if t.IsTrue() {
			return true
		}
		if t.IsFalse() {
			return false
		}
		if t.op == OpAnd && len(t.args) <= flattenMax {
			if len(t.ps) > 0 {
				flatPs = append(flatPs, t.ps...)
			}
			if seen[Not(t).id] {
				return false
			}
			flatSeen[t.id] = true
			for _, a := range t.args {
				if !add(a) {
					return false
				}
			}
			return true
		}
		if seen[t.id] {
			return true
		}
		// complementary literal
		if t.op == OpNot {
			if seen[t.args[0].id] || flatSeen[t.args[0].id] {
				return false
			}
		} else {
			n := Not(t)
			if seen[n.id] {
				return false
			}
		}
		if x, c, ok := eqAtom(t); ok {
			if eqs == nil {
				eqs = map[int]*Term{}
			}
			if c0, ok := eqs[x.id]; ok && c0 != c {
				return false
			}
			eqs[x.id] = c
		}
		seen[t.id] = true
		out = append(out, t)
		return true
	}
	for _, t := range ts {
		if !add(t) {
			return False
		}
	}
	// unit propagation against flattened conjuncts
	if len(out) > 1 {
		k := 0
		for _, t := range out {
			keep := true
			if t.op == OpNot && t.args[0].op == OpAnd && len(t.args[0].args) <= 24 {
				all := true
				for _, a := range t.args[0].args {
					if !seen[a.id] {
						all = false
						break
					}
				}
				if all {
					return False
				}
			} else if t.op == OpNot && t.args[0].op == OpOr && len(t.args[0].args) <= 24 {
				for _, a := range t.args[0].args {
					if seen[a.id] {
						return False
					}
				}
			} else if t.op == OpOr && len(t.args) <= 24 {
				for _, a := range t.args {
					if seen[a.id] {
						keep = false // absorbed: a ∧ (a ∨ …) = a
						break
					}
				}
			}
			if keep {
				out[k] = t
				k++
			}
		}
		out = out[:k]
	}
	// partition-aware intersection
	if len(out) > 1 {
		var pos map[int][]int32
		var cnt map[int]int
		flatPid := map[int]bool{}
		for _, p := range flatPs {
			if pos == nil {
				pos = map[int][]int32{}
				cnt = map[int]int{}
			}
			if cur, ok := pos[p.pid]; ok {
				pos[p.pid] = interIdx(cur, p.idx)
			} else {
				pos[p.pid] = p.idx
			}
			cnt[p.pid]++
			flatPid[p.pid] = true
		}
		for _, t := range out {
			for _, p := range t.ps {
				if pos == nil {
					pos = map[int][]int32{}
					cnt = map[int]int{}
				}
				if cur, ok := pos[p.pid]; ok {
					pos[p.pid] = interIdx(cur, p.idx)
				} else {
					pos[p.pid] = p.idx
				}
				cnt[p.pid]++
			}
		}
		if pos != nil {
			usedNeg := map[int]bool{}
			for _, t := range out {
				if t.op == OpNot {
					for _, p := range t.args[0].ps {
						if flatPid[p.pid] {
							continue // the negation may be a constituent of the flattened atom itself
						}
						if cur, ok := pos[p.pid]; ok {
							pos[p.pid] = diffIdx(cur, p.idx)
							usedNeg[t.id] = true
							cnt[p.pid] += 2
						}
					}
				}
			}
			for pid, idx := range pos {
				if len(idx) == 0 {
					return False
				}
				if cnt[pid] < 2 {
					delete(pos, pid)
				}
			}
			if len(pos) > 0 {
				k := 0
				var extra []*Term
				for _, t := range out {
					if usedNeg[t.id] {
						continue
					}
					drop := false
					for _, p := range t.ps {
						if idx, ok := pos[p.pid]; ok {
							// replaced by the intersection for this partition
							if len(idx) == len(p.idx) {
								// t already equals the intersection: keep t itself (once)
								if pos[p.pid] != nil {
									pos[p.pid] = nil
									continue
								}
							}
							drop = true
							break
						}
					}
					if drop {
						continue
					}
					out[k] = t
					k++
				}
				out = out[:k]
				for pid, idx := range pos {
					if idx != nil && !flatPid[pid] {
						extra = append(extra, psetTerm(pid, idx))
					}
				}
				for _, e := range extra {
					dup := false
					for _, t := range out {
						if t == e {
							dup = true
						}
					}
					if !dup {
						out = append(out, e)
					}
				}
			}
		}
	}
	// x==c together with not(x==c') : drop the redundant negation
	if eqs != nil {
		k := 0
		for _, t := range out {
			if t.op == OpNot {
				if x, c, ok := eqAtom(t.args[0]); ok {
					if c0, ok := eqs[x.id]; ok && c0 != c {
						continue
					}
				}
			}
			out[k] = t
			k++
		}
		out = out[:k]
	}
	if len(out) == 0 {
		return True
	}
	if len(out) == 1 {
		return out[0]
	}
	sort.Slice(out, func(i, j int) bool { return out[i].id < out[j].id })
	return mkApp(OpAnd, SBool, "", out...)
}

func Or(ts ...*Term) *Term {
	out := make([]*Term, 0, len(ts))
	seen := map[int]bool{}
	flatSeen := map[int]bool{}
	var add func(t *Term) bool
	add = func(t *Term) bool {
		if t.IsFalse() {
			return true
		}
		if t.IsTrue() {
			return false
		}
		if t.op == OpOr && len(t.args) <= flattenMax {
			if seen[Not(t).id] {
				return false
			}
			flatSeen[t.id] = true
			for _, a := range t.args {
				if !add(a) {
					return false
				}
			}
			return true
		}
		if seen[t.id] {
			return true
		}
		if t.op == OpNot {
			if seen[t.args[0].id] || flatSeen[t.args[0].id] {
				return false
			}
		} else if seen[Not(t).id] {
			return false
		}
		seen[t.id] = true
		out = append(out, t)
		return true
	}
	for _, t := range ts {
		if !add(t) {
			return True
		}
	}
	if len(out) == 0 {
		return False
	}
	if len(out) == 1 {
		return out[0]
	}
	sort.Slice(out, func(i, j int) bool { return out[i].id < out[j].id })
	r := mkApp(OpOr, SBool, "", out...)
	if r.ps == nil && len(out[0].ps) > 0 {
		for _, p0 := range out[0].ps {
			idx := p0.idx
			ok := true
			for _, t := range out[1:] {
				o := t.psFor(p0.pid)
				if o == nil {
					ok = false
					break
				}
				idx = unionIdx(idx, o)
			}
			if ok {
				r.ps = append(r.ps, pset{pid: p0.pid, idx: idx})
			}
		}
	}
	return r
}

func Implies(a, b *Term) *Term { return Or(Not(a), b) }

// ---------------------------------------------------------------------------
// Cases

const liftCap = 6_000_000

var debugWhere string

var debugLift = os.Getenv("SYMGO_DEBUG_LIFT") != ""

type ErrUnsupported struct{ Msg string }

func (e ErrUnsupported) Error() string { return "unsupported: " + e.Msg }

func unsupported(f string, a ...interface{}) {
	panic(ErrUnsupported{fmt.Sprintf(f, a...)})
}

func casesOf(t *Term) []Case {
	if t.op == OpConst {
		return []Case{{True, t}}
	}
	if t.op == OpCases {
		return t.cases
	}
	panic("casesOf: not liftable")
}

// mkCases builds a normalised case list: merges equal constants, drops false
// guards; a single remaining constant is returned as that constant; Bool lists
// collapse to the disjunction of the true guards.
func mkCases(sort Sort, cs []Case) *Term {
	idx := map[string]int{}
	var vals []*Term
	var guards [][]*Term
	for _, c := range cs {
		if c.G.IsFalse() {
			continue
		}
		k := constKey(c.V)
		j, ok := idx[k]
		if !ok {
			j = len(vals)
			idx[k] = j
			vals = append(vals, c.V)
			guards = append(guards, nil)
		}
		guards[j] = append(guards[j], c.G)
	}
	if len(vals) == 0 {
		// unreachable value: any constant will do
		return zeroConst(sort)
	}
	if sort == SBool {
		var tg []*Term
		var fg []*Term
		for j, v := range vals {
			if v.b {
				tg = append(tg, guards[j]...)
			} else {
				fg = append(fg, guards[j]...)
			}
		}
		if len(fg) == 0 {
			return True
		}
		if len(tg) == 0 {
			return False
		}
		return Or(tg...)
	}
	if len(vals) == 1 {
		return vals[0]
	}
	out := make([]Case, len(vals))
	for j := range vals {
		out[j] = Case{Or(guards[j]...), vals[j]}
	}
	// the guards of a case list are mutually exclusive: remember that
	{
		gl := make([]*Term, len(out))
		for j := range out {
			gl[j] = out[j].G
		}
		// already psets of one common partition?
		common := false
		for _, p0 := range gl[0].ps {
			ok := true
			for _, g := range gl[1:] {
				if g.psFor(p0.pid) == nil {
					ok = false
					break
				}
			}
			if ok {
				common = true
				break
			}
		}
		if !common {
			if debugAnd {
				checkExclusive(gl)
			}
			registerPartition(gl)
		}
	}
	// canonical order by constant key
	sort2 := out
	sortCases(sort2)
	var sb strings.Builder
	sb.WriteString("K")
	sb.WriteByte(byte(sort) + 48)
	for _, c := range sort2 {
		sb.WriteString(strconv.Itoa(c.G.id))
		sb.WriteByte(':')
		sb.WriteString(strconv.Itoa(c.V.id))
		sb.WriteByte(',')
	}
	return TS.intern(sb.String(), func() *Term { return &Term{op: OpCases, sort: sort, cases: sort2} })
}

func sortCases(cs []Case) {
	sort.Slice(cs, func(i, j int) bool { return cs[i].V.id < cs[j].V.id })
}

func zeroConst(s Sort) *Term {
	switch s {
	case SBool:
		return False
	case SBV:
		return BV(0)
	case SInt:
		return IntC(0)
	case SStr:
		return Str("")
	case SFP:
		return FP(0)
	case SRat:
		return Rat(new(big.Rat))
	}
	panic("zeroConst")
}

// lift applies a native function to every combination of constants.
func lift(resSort Sort, f func(cs []*Term) *Term, args ...*Term) *Term {
	lists := make([][]Case, len(args))
	total := 1
	for i, a := range args {
		lists[i] = casesOf(a)
		total *= len(lists[i])
		if total > liftCap {
			unsupported("lifted product too large (%d)", total)
		}
	}
	TS.liftOps += int64(total)
	if debugLift && total > 2000 {
		fmt.Fprintf(os.Stderr, "LIFT total=%d sizes=", total)
		for _, l := range lists {
			fmt.Fprintf(os.Stderr, "%d ", len(l))
		}
		fmt.Fprintf(os.Stderr, "res=%v at %s\n", resSort, debugWhere)
	}
	if total == 1 {
		cs := make([]*Term, len(args))
		for i := range args {
			cs[i] = lists[i][0].V
		}
		return f(cs)
	}
	out := make([]Case, 0, total)
	cur := make([]*Term, len(args))
	var rec func(i int, g *Term)
	rec = func(i int, g *Term) {
		if i == len(args) {
			out = append(out, Case{g, f(cur)})
			return
		}
		for _, c := range lists[i] {
			g2 := And(g, c.G)
			if g2.IsFalse() {
				continue
			}
			cur[i] = c.V
			rec(i+1, g2)
		}
	}
	rec(0, True)
	return mkCases(resSort, out)
}

func allLiftable(args ...*Term) bool {
	for _, a := range args {
		if !a.Liftable() {
			return false
		}
	}
	return true
}

// ---------------------------------------------------------------------------
// Ite / Eq

func Ite(c, a, b *Term) *Term {
	if c.IsTrue() {
		return a
	}
	if c.IsFalse() {
		return b
	}
	if a == b {
		return a
	}
	if a.sort != b.sort {
		panic(fmt.Sprintf("Ite sort mismatch %v %v", a.sort, b.sort))
	}
	if a.sort == SBool {
		return Or(And(c, a), And(Not(c), b))
	}
	if a.Liftable() && b.Liftable() {
		var out []Case
		nc := Not(c)
		for _, x := range casesOf(a) {
			out = append(out, Case{And(c, x.G), x.V})
		}
		for _, x := range casesOf(b) {
			out = append(out, Case{And(nc, x.G), x.V})
		}
		return mkCases(a.sort, out)
	}
	if a.op == OpSegStr || b.op == OpSegStr || (a.sort == SStr && (!noByte(a, '/') || !noByte(b, '/'))) {
		if r := iteSegStr(c, a, b); r != nil {
			return r
		}
	}
	// ite(c, ite(c, x, y), b) -> ite(c, x, b)
	if a.op == OpIte && a.args[0] == c {
		a = a.args[1]
	}
	if b.op == OpIte && b.args[0] == c {
		b = b.args[2]
	}
	return mkApp(OpIte, a.sort, "", c, a, b)
}

func Eq(a, b *Term) *Term {
	if a == b {
		if a.sort == SFP {
			// structural equality of float terms is only used on bit patterns; callers use FPEq for IEEE
		}
		return True
	}
	if a.sort != b.sort {
		panic(fmt.Sprintf("Eq sort mismatch %v %v: %v / %v", a.sort, b.sort, a, b))
	}
	if allLiftable(a, b) {
		return lift(SBool, func(cs []*Term) *Term { return Bool(cs[0] == cs[1]) }, a, b)
	}
	if a.sort == SBool {
		return Or(And(a, b), And(Not(a), Not(b)))
	}
	if a.sort == SStr {
		if r := eqStr(a, b); r != nil {
			return r
		}
	}
	// push equality with a constant into ITE / Cases
	if b.op != OpConst && a.op == OpConst {
		a, b = b, a
	}
	if b.Liftable() && a.op == OpIte {
		return Or(And(a.args[0], Eq(a.args[1], b)), And(Not(a.args[0]), Eq(a.args[2], b)))
	}
	if b.op == OpCases && a.op != OpCases {
		a, b = b, a
	}
	if a.op == OpCases {
		// (cases) == symbolic : disjunction over cases
		var ds []*Term
		for _, c := range a.cases {
			ds = append(ds, And(c.G, Eq(b, c.V)))
		}
		return Or(ds...)
	}
	if a.op == OpIte {
		return Or(And(a.args[0], Eq(a.args[1], b)), And(Not(a.args[0]), Eq(a.args[2], b)))
	}
	if b.op == OpIte {
		return Or(And(b.args[0], Eq(a, b.args[1])), And(Not(b.args[0]), Eq(a, b.args[2])))
	}
	// canonical argument order: constant second, else by id
	if b.op != OpConst && a.id > b.id {
		a, b = b, a
	}
	// ranged enum var compared with an out-of-range constant
	if a.op == OpVar && a.ranged && b.op == OpConst && (b.i < a.lo || b.i > a.hi) {
		return False
	}
	// len(s) == 0  <=>  s == ""
	if a.op == OpInt2BV && a.args[0].op == OpStrLen && b.op == OpConst {
		if b.i == 0 {
			return Eq(a.args[0].args[0], Str(""))
		}
		if b.i < 0 {
			return False
		}
	}
	return mkApp(OpEq, SBool, "", a, b)
}

func Ne(a, b *Term) *Term { return Not(Eq(a, b)) }

// ---------------------------------------------------------------------------
// generic application with native folding

func foldBV(op Op, a, b int64) *Term {
	switch op {
	case OpBVAdd:
		return BV(a + b)
	case OpBVSub:
		return BV(a - b)
	case OpBVMul:
		return BV(a * b)
	case OpBVSDiv:
		if b == 0 {
			return BV(0)
		}
		return BV(a / b)
	case OpBVSRem:
		if b == 0 {
			return BV(0)
		}
		return BV(a % b)
	case OpBVSLt:
		return Bool(a < b)
	case OpBVSLe:
		return Bool(a <= b)
	case OpBVAnd:
		return BV(a & b)
	case OpBVOr:
		return BV(a | b)
	case OpBVXor:
		return BV(a ^ b)
	case OpBVShl:
		if b < 0 || b > 63 {
			return BV(0)
		}
		return BV(a << uint(b))
	case OpBVAshr:
		if b < 0 || b > 63 {
			if a < 0 {
				return BV(-1)
			}
			return BV(0)
		}
		return BV(a >> uint(b))
	case OpBVLshr:
		if b < 0 || b > 63 {
			return BV(0)
		}
		return BV(int64(uint64(a) >> uint(b)))
	}
	panic("foldBV")
}

func BVBin(op Op, a, b *Term) *Term {
	rs := SBV
	if op == OpBVSLt || op == OpBVSLe {
		rs = SBool
	}
	if allLiftable(a, b) {
		return lift(rs, func(cs []*Term) *Term { return foldBV(op, cs[0].i, cs[1].i) }, a, b)
	}
	// push comparisons with constants through ITE/Cases
	if rs == SBool {
		if a.op == OpCases {
			var ds []*Term
			for _, c := range a.cases {
				ds = append(ds, And(c.G, BVBin(op, c.V, b)))
			}
			return Or(ds...)
		}
		if b.op == OpCases {
			var ds []*Term
			for _, c := range b.cases {
				ds = append(ds, And(c.G, BVBin(op, a, c.V)))
			}
			return Or(ds...)
		}
		if a.op == OpIte {
			return Or(And(a.args[0], BVBin(op, a.args[1], b)), And(Not(a.args[0]), BVBin(op, a.args[2], b)))
		}
		if b.op == OpIte {
			return Or(And(b.args[0], BVBin(op, a, b.args[1])), And(Not(b.args[0]), BVBin(op, a, b.args[2])))
		}
		// constant vs length of a string whose constant parts already decide the comparison
		if a.op == OpConst && b.op == OpInt2BV && len(b.args) == 1 && b.args[0].op == OpStrLen {
			if m := strMinLen(b.args[0].args[0]); (op == OpBVSLt && a.i < m) || (op == OpBVSLe && a.i <= m) {
				return True
			}
		}
		if b.op == OpConst && a.op == OpInt2BV && len(a.args) == 1 && a.args[0].op == OpStrLen {
			if m := strMinLen(a.args[0].args[0]); (op == OpBVSLt && m >= b.i) || (op == OpBVSLe && m > b.i) {
				return False
			}
		}
		// ranged var vs constant
		if a.op == OpVar && a.ranged && b.op == OpConst {
			if op == OpBVSLt {
				if a.hi < b.i {
					return True
				}
				if a.lo >= b.i {
					return False
				}
			} else {
				if a.hi <= b.i {
					return True
				}
				if a.lo > b.i {
					return False
				}
			}
		}
		if b.op == OpVar && b.ranged && a.op == OpConst {
			if op == OpBVSLt {
				if a.i < b.lo {
					return True
				}
				if a.i >= b.hi {
					return False
				}
			} else {
				if a.i <= b.lo {
					return True
				}
				if a.i > b.hi {
					return False
				}
			}
		}
	}
	return mkApp(op, rs, "", a, b)
}

func BVNeg(a *Term) *Term {
	if a.Liftable() {
		return lift(SBV, func(cs []*Term) *Term { return BV(-cs[0].i) }, a)
	}
	return mkApp(OpBVNeg, SBV, "", a)
}

// ---------------------------------------------------------------------------
// floats

func foldFP(op Op, cs []*Term) *Term {
	a := cs[0].Float()
	var b float64
	if len(cs) > 1 && cs[1].sort == SFP {
		b = cs[1].Float()
	}
	switch op {
	case OpFPAdd:
		return FP(a + b)
	case OpFPSub:
		return FP(a - b)
	case OpFPMul:
		return FP(a * b)
	case OpFPDiv:
		return FP(a / b)
	case OpFPNeg:
		return FP(-a)
	case OpFPLt:
		return Bool(a < b)
	case OpFPLe:
		return Bool(a <= b)
	case OpFPEq:
		return Bool(a == b)
	case OpFPRound:
		return FP(math.Round(a))
	case OpFPFloor:
		return FP(math.Floor(a))
	case OpFPMin:
		return FP(math.Min(a, b))
	case OpFPToInt:
		return BV(int64(a))
	case OpFPIsNaN:
		return Bool(a != a)
	}
	panic("foldFP")
}

// pureFP: floats are not lifted (no native folding across case lists); every float operation with a
// non-constant operand reaches the solver in the FloatingPoint theory. Used by the thorough-tier
// cross-checks of the native folding layer (DESIGN D-float).
var pureFP = false

func allConstTerms(args []*Term) bool {
	for _, a := range args {
		if a.op != OpConst {
			return false
		}
	}
	return true
}

func FPOp(op Op, args ...*Term) *Term {
	rs := SFP
	switch op {
	case OpFPLt, OpFPLe, OpFPEq, OpFPIsNaN:
		rs = SBool
	case OpFPToInt:
		rs = SBV
	}
	if allLiftable(args...) && (!pureFP || allConstTerms(args)) {
		return lift(rs, func(cs []*Term) *Term { return foldFP(op, cs) }, args...)
	}
	return mkApp(op, rs, "", args...)
}

func FPFromBV(a *Term) *Term {
	if a.Liftable() && (!pureFP || a.op == OpConst) {
		return lift(SFP, func(cs []*Term) *Term { return FP(float64(cs[0].i)) }, a)
	}
	return mkApp(OpFPFromBV, SFP, "", a)
}

// ---------------------------------------------------------------------------
// uninterpreted functions

func UF(name string, res Sort, args ...*Term) *Term {
	sig := ufSig{res: res}
	for _, a := range args {
		sig.args = append(sig.args, a.sort)
	}
	if old, ok := TS.ufs[name]; ok {
		if len(old.args) != len(sig.args) {
			panic("UF arity mismatch " + name)
		}
	} else {
		TS.ufs[name] = sig
	}
	return mkApp(OpUF, res, name, args...)
}

// ---------------------------------------------------------------------------
// printing (debug)

func (t *Term) String() string {
	return t.str(4)
}

func (t *Term) str(depth int) string {
	switch t.op {
	case OpConst:
		switch t.sort {
		case SBool:
			return strconv.FormatBool(t.b)
		case SBV, SInt:
			return strconv.FormatInt(t.i, 10)
		case SStr:
			return strconv.Quote(t.s)
		case SFP:
			return strconv.FormatFloat(t.Float(), 'g', -1, 64)
		case SRat:
			return t.r.RatString()
		}
	case OpVar:
		return t.s
	case OpCases:
		if depth <= 0 {
			return fmt.Sprintf("cases#%d", t.id)
		}
		var sb strings.Builder
		sb.WriteString("cases{")
		for i, c := range t.cases {
			if i > 0 {
				sb.WriteString("; ")
			}
			if i > 6 {
				sb.WriteString(fmt.Sprintf("…%d", len(t.cases)))
				break
			}
			sb.WriteString(c.G.str(depth - 1))
			sb.WriteString("->")
			sb.WriteString(c.V.str(0))
		}
		sb.WriteString("}")
		return sb.String()
	}
	if depth <= 0 {
		return fmt.Sprintf("#%d", t.id)
	}
	name := opNames[t.op]
	if name == "" {
		name = fmt.Sprintf("op%d", t.op)
	}
	if t.op == OpUF {
		name = t.s
	}
	var sb strings.Builder
	sb.WriteString("(" + name)
	for i, a := range t.args {
		if i > 8 {
			sb.WriteString(" …")
			break
		}
		sb.WriteString(" ")
		sb.WriteString(a.str(depth - 1))
	}
	sb.WriteString(")")
	return sb.String()
}


// strMinLen: a lower bound of the length of a string term (sum of the shortest constants of its parts).
func strMinLen(s *Term) int64 {
	switch s.op {
	case OpConst:
		return int64(len(s.s))
	case OpCases:
		m := int64(-1)
		for _, c := range s.cases {
			if n := int64(len(c.V.s)); m < 0 || n < m {
				m = n
			}
		}
		if m < 0 {
			return 0
		}
		return m
	case OpConcat:
		var n int64
		for _, a := range s.args {
			n += strMinLen(a)
		}
		return n
	case OpIte:
		a, b := strMinLen(s.args[1]), strMinLen(s.args[2])
		if a < b {
			return a
		}
		return b
	}
	return 0
}
